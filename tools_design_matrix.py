#!/usr/bin/env python3
"""Developer tool: refresh the detection matrix inside DESIGN.md (between the markers)."""
import subprocess, re
out = subprocess.run(["/verif/tools_matrix.py"], capture_output=True, text=True).stdout
tbl = "\n".join(l for l in out.splitlines() if l.startswith("|"))
s = open("/verif/DESIGN.md").read()
begin, end = "<!-- matrix:begin -->", "<!-- matrix:end -->"
if "MATRIX_PLACEHOLDER" in s:
    s = s.replace("MATRIX_PLACEHOLDER", begin + "\n" + tbl + "\n" + end)
else:
    s = re.sub(re.escape(begin) + r".*?" + re.escape(end), lambda m: begin + "\n" + tbl + "\n" + end, s, flags=re.S)
open("/verif/DESIGN.md", "w").write(s)
print("matrix rows:", len(tbl.splitlines()) - 2)
