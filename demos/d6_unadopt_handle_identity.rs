use std::cell::RefCell;
use cactusref::{Adopt, Rc};

#[derive(Default)]
struct Node {
    kids: RefCell<Vec<Rc<Node>>>,
}

// `a` stores a handle to itself and records it (through the stored handle, as in the crate's docs).
// Later it removes the handle again and tells the library so, naming the object `a` through the
// handle it has at hand. adopt and unadopt name the same (owner, target) pair of objects.
#[test]
fn unadopt_is_the_inverse_of_adopt_for_the_same_pair_of_objects() {
    let a = Rc::new(Node::default());
    a.kids.borrow_mut().push(Rc::clone(&a));
    unsafe { Rc::adopt_unchecked(&a, &a.kids.borrow()[0]) };
    let me = a.kids.borrow_mut().pop().unwrap();
    Rc::unadopt(&a, &a);
    drop(me);
    // nothing is recorded any more as far as the calls go: `a` is an ordinary object with two handles
    let keep = Rc::clone(&a);
    drop(a);
    assert_eq!(Rc::strong_count(&keep), 1);
    assert!(keep.kids.borrow().is_empty());
}
