// finding_1 -- make_mut silently forgets the adoptions of the object it "steals"
//
// LABEL: CONTRACT-AMBIGUOUS. Memory safe. A leak (C03 / C04 as the caller sees
// them), caused by the code added in e3ca210 (`drop::unlink` in the steal branch
// of `Rc::make_mut`).
//
// Property: C03 (an orphaned adopted group is destroyed in full by the drop that
// orphans it) and C08 (the recorded adoption graph equals what the calls imply:
// a record disappears only through `unadopt` or when the object is destroyed),
// with C04 as a consequence (the group is never released).
//
// Contracts honoured: every `adopt_unchecked(owner, target)` is made while the
// owner's value holds a distinct strong handle to the target, exactly one
// adoption per stored handle, no handle is ever removed from a value, `unadopt`
// is never needed. `make_mut` is called on the ONLY strong handle of `a`
// (strong_count == 1), where the documentation promises "won't clone anything".
// The only difference between the two histories below is an outstanding `Weak`
// (a cache entry, a parent pointer ...), which the caller of `make_mut` need
// not even know about.
//
// What fails: natively and under Miri alike the second test fails with
// `left: 0, right: 2`: after the last outside handle is gone, the ring a <-> b
// is not collected (both values and both allocations leak). The control history
// without the Weak collects both. No UB is reported by Miri.
//
// Mechanism: src/rc.rs, `make_mut`, branch `else if Rc::weak_count(this) != 0`
// (lines ~899-918): the value is bit-copied into a fresh allocation N, then
// `crate::drop::unlink(this)` (src/drop.rs:354-368) removes the old allocation
// from b's link table and clears its own table, and the table is dropped. The
// record "a adopted b" is thereby erased, but the value -- and with it the
// stored handle to b that the record stood for -- lives on in N, whose link
// table is empty. From then on N owns an unrecorded handle to b. When later
// b adopts N and the outside handles are dropped, `cycle_refs` (src/cycle.rs:41)
// started at N sees only Backward(b) -> {b: 0}, b.strong()==1 > 0, "externally
// owned", nothing is ever collected. In the in-place branch (no Weak) the
// record survives and the ring is collected, so the outcome of an honest
// history depends on whether some Weak happened to exist at the time of
// make_mut. The alternative reading "adoptions belong to the allocation, the
// caller must re-adopt after make_mut" is defensible, but nothing in the docs
// of make_mut / adopt_unchecked says so, and the caller learns which branch was
// taken only by inspecting weak_count beforehand (a Weak may be held by
// unrelated code). A fix that keeps C12 would be
// to MOVE the link table to the new allocation and re-point the peers'
// Backward/Forward entries instead of erasing them.
//
// (Before e3ca210 the same history left stale links behind and was a
// use-after-free; the fix traded that for this leak.)

use cactusref::{Adopt, Rc};
use std::cell::{Cell, RefCell};

thread_local! { static DROPS: Cell<usize> = const { Cell::new(0) }; }

#[derive(Clone)]
struct Node {
    name: String,
    kids: RefCell<Vec<Rc<Node>>>,
}

impl Drop for Node {
    fn drop(&mut self) {
        DROPS.with(|d| d.set(d.get() + 1));
    }
}

fn history(with_weak: bool) -> usize {
    DROPS.with(|d| d.set(0));
    let mut a = Rc::new(Node { name: "a".into(), kids: RefCell::new(vec![]) });
    let b = Rc::new(Node { name: "b".into(), kids: RefCell::new(vec![]) });

    // a owns b; recorded.
    let b_in_a = Rc::clone(&b);
    unsafe { Rc::adopt_unchecked(&a, &b_in_a) };
    a.kids.borrow_mut().push(b_in_a);

    let weak = if with_weak { Some(Rc::downgrade(&a)) } else { None };

    // `a` is the only strong handle: no clone-on-write is expected.
    assert_eq!(Rc::strong_count(&a), 1);
    Rc::make_mut(&mut a).name.push('!');
    assert_eq!(a.kids.borrow().len(), 1); // the stored handle to b is still there

    // b owns a; recorded.
    let a_in_b = Rc::clone(&a);
    unsafe { Rc::adopt_unchecked(&b, &a_in_b) };
    b.kids.borrow_mut().push(a_in_b);

    drop(weak);
    drop(b);
    drop(a); // orphans the ring a <-> b
    DROPS.with(|d| d.get())
}

#[test]
fn control_without_weak_ring_is_collected() {
    assert_eq!(history(false), 2);
}

#[test]
fn with_weak_make_mut_forgets_adoptions_and_ring_leaks() {
    assert_eq!(history(true), 2);
}
