// finding_2 -- an adopted group whose adoptee is released last is never collected
//
// LABEL: PROPERTY-WORDING-AMBIGUOUS. Memory safe. A leak that depends on the
// order in which the program drops its outside handles. Not related to the
// try_unwrap / make_mut change; it showed up as the dominant reason why the
// randomized harness could not apply the C04 byte-exact check (about 5% of the
// histories in which EVERY stored handle is recorded and every removal is
// unadopted end with unreachable, never destroyed objects).
//
// Property: C03. Its "Holds" clause names "cycles with acyclic tails" and "every
// choice of which outside handle is dropped last". Whether the statement itself
// is violated depends on how "reachable from X through recorded adoptions" is
// read:
//   * directed (owner -> target only): when the last outside handle, the one to
//     the tail y, is dropped, the set reachable from y is {y}; y's remaining
//     handle is held by x, which is not in the set, so the premise is false and
//     C03 holds only vacuously -- for exactly the choice of last handle that
//     the Holds clause advertises. The group {x, y} is unreachable and is never
//     examined again: it leaks for good (C04's premise "every object has been
//     destroyed" is then never met either).
//   * undirected (connected through adoption records): the set is {x, y}, every
//     strong handle to x (1, self-adoption) and to y (1, held by x) is a
//     recorded adoption held inside the set, so C03 requires both to be
//     destroyed by `drop(y)`, and the library violates it.
// It also contradicts the crate-level promise that a group "otherwise
// unreachable from the rest of the object graph" is deallocated. The outcome
// depends on the drop order only: the same graph with the same records is
// collected in full when y's outside handle goes first.
//
// Contracts honoured: both adoptions are recorded while the owner's value holds
// a distinct handle to the target; nothing is ever removed, so no unadopt is due.
//
// What fails: natively and under Miri, `child_handle_dropped_last_everything_leaks`
// fails with `left: 0, right: 2`; the mirrored order passes. No UB.
//
// Mechanism: src/cycle.rs `cycle_refs` (lines 41-81) crawls Forward links only;
// a Backward link merely enters its owner into the map with count 0
// (line 71-73) and the owner is not visited. Starting from y (drop.rs:151,
// `orphaned_cycle(self)`), the map is {x: 0}; x.strong()==1 > 0, so
// `has_external_owners` (cycle.rs:28-30) is true although x's only handle is
// its own recorded self-adoption. Nothing visits x ever again because no
// handle to x or y exists outside the group.

use cactusref::{Adopt, Rc};
use std::cell::{Cell, RefCell};

thread_local! { static DROPS: Cell<usize> = const { Cell::new(0) }; }

struct Node {
    kids: RefCell<Vec<Rc<Node>>>,
}

impl Drop for Node {
    fn drop(&mut self) {
        DROPS.with(|d| d.set(d.get() + 1));
    }
}

fn history(child_first: bool) -> usize {
    DROPS.with(|d| d.set(0));
    let x = Rc::new(Node { kids: RefCell::new(vec![]) });
    let y = Rc::new(Node { kids: RefCell::new(vec![]) });
    // x owns a handle to itself (a cycle) and a handle to y (a tail); both recorded.
    let x_in_x = Rc::clone(&x);
    unsafe { Rc::adopt_unchecked(&x, &x_in_x) };
    x.kids.borrow_mut().push(x_in_x);
    let y_in_x = Rc::clone(&y);
    unsafe { Rc::adopt_unchecked(&x, &y_in_x) };
    x.kids.borrow_mut().push(y_in_x);
    if child_first {
        drop(y);
        drop(x);
    } else {
        drop(x);
        drop(y);
    }
    DROPS.with(|d| d.get())
}

#[test]
fn child_handle_dropped_first_everything_is_collected() {
    assert_eq!(history(true), 2);
}

#[test]
fn child_handle_dropped_last_everything_leaks() {
    assert_eq!(history(false), 2);
}
