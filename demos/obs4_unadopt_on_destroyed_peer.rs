// FINDING 4 -- safe functions other than `clone` are unguarded on a handle to
// a destroyed group member: `Rc::unadopt` (a SAFE trait method) borrows and
// edits the member's link table after it has been moved out and freed.
//
// Property violated
//   C16 (boundary) / memory safety of safe code. C16 states that safe code can
//   hold a strong handle to an already destroyed object inside a destructor
//   that runs during the collection of its own group, that cloning it aborts
//   and dropping it does nothing. `unadopt(&peer, &other)` on such a handle
//   neither aborts nor is a no-op: it is undefined behaviour.
//
// Contracts
//   Honoured. Every stored handle is recorded as an adoption. The destructor
//   calls only the safe `Adopt::unadopt` on two handles its value owns (a
//   destructor that tidies bookkeeping before its handles go away); it never
//   dereferences or clones them. `unadopt` has no documented precondition.
//
// What fails
//   native : "already mutably borrowed"/"already borrowed" panic from the
//            RefCell at src/adopt.rs:234 inside a destructor -> double panic ->
//            SIGABRT (the borrow flag is stale garbage); with other layouts it
//            silently edits a freed hash table.
//   Miri   : "Undefined Behavior: reading memory ... but memory is
//            uninitialized" in RefCell::try_borrow_mut called from
//            <Rc<Node> as Adopt>::unadopt (src/adopt.rs:234).
//
// Mechanism
//   src/drop.rs:286-297: drop_cycle marks every member uninit and moves its
//   value AND its `RefCell<Links<T>>` out of the RcBox into `inners`, leaving
//   `MaybeUninit::uninit()` behind, before any destructor runs
//   (drop.rs:301). `unadopt` (src/adopt.rs:217-247) calls
//   `this.inner().links()` (src/rc.rs:282-288) without looking at the
//   liveness of `this`; the `# Safety` comment there ("`this` is a live `Rc`")
//   is an assumption no safe caller is asked to establish. Only `inc_strong`
//   (rc.rs:1803) has a guard.

use cactusref::{Adopt, Rc};
use std::cell::RefCell;

struct Node {
    out: RefCell<Vec<Rc<Node>>>,
}

impl Drop for Node {
    fn drop(&mut self) {
        let out = self.out.borrow();
        if out.len() == 2 {
            // safe call; the values behind the handles are never looked at
            Rc::unadopt(&out[0], &out[1]);
        }
    }
}

fn link(a: &Rc<Node>, b: &Rc<Node>) {
    let c = Rc::clone(b);
    unsafe { Rc::adopt_unchecked(a, &c) };
    a.out.borrow_mut().push(c);
}

#[test]
fn unadopt_between_peers_in_destructor() {
    let n: Vec<_> = (0..4)
        .map(|_| Rc::new(Node { out: RefCell::new(vec![]) }))
        .collect();
    for i in 0..4 {
        link(&n[i], &n[(i + 1) % 4]);
        link(&n[i], &n[(i + 2) % 4]);
    }
    drop(n); // the last drop collects the group of four
}
