// FINDING 4 -- [ELIDED-UNADOPT CATEGORY] removing an adopted handle without
//              calling `unadopt` makes the reachability trace over-count, an
//              externally held object is collected, and its handle dangles
//
// *** Category label ***
//   This history removes an adopted handle from its owner WITHOUT calling
//   `Adopt::unadopt`.  The documentation declares exactly that to be memory
//   safe:
//     adopt_unchecked, "# Safety": "Callers should call `unadopt` when `this`
//       no longer holds a strong reference to `other` to avoid memory leaks,
//       but this is not required for soundness."
//     unadopt, "# Memory Leaks": "Failure to call this function when removing
//       an owned `Rc` from `this` is safe, but may result in a memory leak."
//   (tests/leak_unadopt.rs::leak_with_elided_unadopt exercises the same
//   pattern.)  The result is not a leak but a use-after-free, so it is
//   reported, separately from the fully-honest findings.
//
// Property violated
//   C02 (library frees an allocation while a strong handle exists and later
//   reads it) and the documented soundness statement quoted above.
//
// Contracts
//   Both adoptions are recorded while the handle is really stored
//   (adopt_unchecked, then push).  The single deviation is the elided
//   `unadopt` on removal, which is documented as optional for soundness.
//
// What fails
//   natively: `externally_held_object_is_destroyed` fails its assertion
//             deterministically (b's destructor ran while the test still
//             holds `b`).  `external_handle_dangles`: `Rc::strong_count(&b)`
//             reads freed memory (garbage value, assertion fails; further
//             use crashes).
//   Miri:     `external_handle_dangles`: "Undefined Behavior: ... dangling
//             reference (use-after-free)" in `Rc::inner` <- `Rc::strong_count`.
//
// Mechanism
//   After `a` gives up its clone of `b` without `unadopt`, A.links still holds
//   Forward(B) = 1 while B's strong count no longer includes that clone
//   (strong(B) = 1, the external handle `b`).  `drop(a)` leaves strong(A) = 1
//   (b's stored clone) and runs `Rc::orphaned_cycle` (src/cycle.rs:23-36):
//   `cycle_refs` reports {A: 1, B: 1}; the test `item.strong() >
//   cycle_owned_refs` (cycle.rs:28-30) is false for both -- B's external
//   handle is mistaken for the (no longer existing) handle stored in A.
//   `drop_cycle` (src/drop.rs:216-347) then lowers both strong counts to 0
//   (drop.rs:267-269), destroys both values and, because no Weak exists,
//   deallocates both RcBoxes (drop.rs:334-345).  The external `b` now dangles.
//   The trace compares *counts*; a stale link can stand in for any other
//   handle, so "may leak" is not the worst case of a stale link.

use cactusref::{Adopt, Rc};
use std::cell::{Cell, RefCell};

thread_local! {
    static B_DESTROYED: Cell<bool> = const { Cell::new(false) };
}

struct Node {
    name: &'static str,
    kids: RefCell<Vec<Rc<Node>>>,
}

impl Drop for Node {
    fn drop(&mut self) {
        if self.name == "b" {
            B_DESTROYED.with(|f| f.set(true));
        }
    }
}

fn node(name: &'static str) -> Rc<Node> {
    Rc::new(Node {
        name,
        kids: RefCell::new(Vec::new()),
    })
}

fn link(owner: &Rc<Node>, child: &Rc<Node>) {
    let h = Rc::clone(child);
    unsafe { Rc::adopt_unchecked(owner, &h) };
    owner.kids.borrow_mut().push(h);
}

/// Returns the external handle to b after the history.
fn history() -> Rc<Node> {
    let a = node("a");
    let b = node("b");
    link(&a, &b);
    link(&b, &a);

    // a gives up its handle to b; `unadopt` is elided ("safe, but may leak").
    let h = a.kids.borrow_mut().pop().unwrap();
    drop(h);
    assert_eq!(Rc::strong_count(&b), 1);
    assert_eq!(Rc::strong_count(&a), 2);

    // Drop the external handle to a.  b is still held by the caller; a is
    // still reachable through b's value.  Nothing may be destroyed.
    drop(a);
    b
}

#[test]
fn externally_held_object_is_destroyed() {
    let b = history();
    let destroyed = B_DESTROYED.with(Cell::get);
    std::mem::forget(b); // do not touch the dangling handle in this test
    assert!(!destroyed, "b was destroyed while an external handle to it exists");
}

#[test]
fn external_handle_dangles() {
    let b = history();
    assert_eq!(Rc::strong_count(&b), 1); // <- Miri: use-after-free
    assert_eq!(b.name, "b");
    assert_eq!(b.kids.borrow().len(), 1);
    drop(b);
}
