// FINDING 6 (outside the six listed properties: plain memory safety, no
// adoption involved) -- `Rc<T>` lets a value outlive data it borrows and then
// runs the value's destructor: use-after-free in 100% safe code.
//
// Property violated
//   None of C05/C06/C09/C14/C15/C16; soundness of the safe API (drop check).
//
// Contracts
//   Nothing but `Rc::new` and scopes. No unsafe code, no adoption.
//
// What fails
//   native : test 1: the destructor reads a freed String: assertion failure
//            inside a destructor (observed: "thread panicked while processing
//            panic", SIGABRT) or garbage. With std::rc::Rc the same program is
//            rejected by the compiler (E0597 `s` does not live long enough).
//            Test 2 passes natively (the moved reference is never used).
//   Miri   : test 1: "constructing invalid value of type ReadOnDrop<'_>: at
//            .0, encountered a dangling reference (use-after-free)" at
//            src/drop.rs:196, i.e. already when the value is moved out, before
//            its destructor reads the freed String.
//            test 2: "Undefined Behavior: constructing invalid value of type
//            &String: encountered a dangling reference (use-after-free)" at
//            src/drop.rs:196 (`inner.assume_init()`); std::rc::Rc accepts this
//            program as well and it is fine there.
//
// Mechanism
//   src/drop.rs:13 `unsafe impl<#[may_dangle] T> Drop for Rc<T>` promises the
//   drop checker that Rc's destructor does not access `T` other than by
//   dropping it, and relies on the `PhantomData` field to tell the checker that
//   a `T` IS dropped. The field is `PhantomData<RcBox<T>>` (src/rc.rs:303), and
//   `RcBox<T>` holds the value as `MaybeUninit<T>` (rc.rs:274), i.e. inside a
//   `ManuallyDrop<T>`, which the drop checker treats as "never drops T". So the
//   checker concludes that dropping an `Rc<T>` never runs `T`'s destructor and
//   allows `T`'s borrows to be dead by then (test 1).
//   Independently, every teardown path MOVES the value out before dropping it
//   (`mem::replace` + `assume_init`, drop.rs:194-196, 290-297, 441-443): a
//   typed copy of a `T` whose references may legally dangle under `may_dangle`
//   (test 2; std uses `ptr::drop_in_place`, which does not touch a `T` without
//   drop glue).

use cactusref::Rc;

struct ReadOnDrop<'a>(&'a String);

impl Drop for ReadOnDrop<'_> {
    fn drop(&mut self) {
        assert_eq!(self.0.as_str(), "hello, this is a heap allocated string");
    }
}

#[test]
fn value_with_destructor_outlives_its_borrow() {
    let _rc;
    {
        let s = String::from("hello, this is a heap allocated string");
        _rc = Rc::new(ReadOnDrop(&s));
    } // `s` is freed here
    let _reuse = String::from("XXXXXXXXXXXXXXXXXXXXXXXXXXXXXXXXXXXXXX");
    // `_rc` is dropped here and runs ReadOnDrop::drop on the freed String
}

#[test]
fn rc_of_plain_reference_may_dangle_as_with_std() {
    let _std_rc;
    {
        let s = String::from("hello");
        _std_rc = std::rc::Rc::new(&s); // accepted, and fine
    }
    let _rc;
    {
        let s = String::from("hello");
        _rc = Rc::new(&s); // accepted, Rc::drop then moves the dangling `&String`
    }
}
