// FINDING 9 (C09, boundary: needs destructors with side effects on
// program-held handles) -- whether a second, unrelated structure is collected
// or leaked for ever by ONE `drop` depends on allocation addresses.
//
// Property violated
//   C09: "the set of objects destroyed by each operation ... is a function of
//   the sequence of calls alone. Running the same sequence with different
//   allocation addresses ... yields the same sets; only the order of
//   destruction inside one collected group may vary." The order of destruction
//   inside the group {g1, g2} does vary with the addresses (that much is
//   allowed), but the destructors of g1 and g2 each release one program-held
//   handle, and the set of objects destroyed by the single call `drop(g1)` is
//   {g1, g2, a, b, c} for some layouts and {g1, g2} (a, b, c leaked, never
//   collected later) for others.
//
// Contracts
//   Honoured. Every handle stored inside an object is recorded as an adoption
//   (C09's precondition). The two handles in REGISTRY are held by the program
//   (a thread local), not stored in any Rc-managed object, so there is nothing
//   to adopt. The same program text runs in every round; only the number of
//   unrelated allocations made beforehand changes.
//
// What fails
//   native : final assertion, e.g. "collected 34 times, leaked 30 times".
//   Miri   : same assertion (no UB); the split differs.
//
// Mechanism
//   Two ingredients.
//   (1) src/drop.rs:272-301: drop_cycle gathers the members' values by
//       iterating the trace result, a hash map keyed by allocation address
//       (FxHash of pointer + kind), and drops them in that order. So g1's and
//       g2's destructors run in an address dependent order.
//   (2) src/cycle.rs:49-76: the trace only follows Forward links; a Backward
//       link merely lists the owner with count 0 (cycle.rs:71-73). Whether the
//       orphaned structure a <-> b -> c is recognised therefore depends on
//       WHICH handle to it is dropped last: dropping the last outside handle to
//       `a` traces a, b, c and collects them; dropping the last outside handle
//       to `c` traces only c, sees its owner b "externally owned"
//       (strong 1 > 0) and gives up, and nothing ever looks again.
//   (1) decides the order of the two releases, (2) turns that order into
//   "collected" versus "leaked".

use cactusref::{Adopt, Rc};
use std::cell::RefCell;

thread_local! {
    // handles held by the program, indexed by a resource number
    static REGISTRY: RefCell<Vec<Option<Rc<Node>>>> = RefCell::new(Vec::new());
}

#[derive(Default)]
struct Node {
    out: RefCell<Vec<Rc<Node>>>,
    // resource number released when this node is destroyed
    releases: Option<usize>,
}

impl Drop for Node {
    fn drop(&mut self) {
        if let Some(i) = self.releases {
            let released = REGISTRY.with(|r| r.borrow_mut()[i].take());
            drop(released);
        }
    }
}

fn link(a: &Rc<Node>, b: &Rc<Node>) {
    let c = Rc::clone(b);
    unsafe { Rc::adopt_unchecked(a, &c) };
    a.out.borrow_mut().push(c);
}

fn node(releases: Option<usize>) -> Rc<Node> {
    Rc::new(Node { out: RefCell::default(), releases })
}

// One fixed sequence of calls. Returns whether `a` (and with it b, c) was
// destroyed by the final `drop(g1)`.
fn history() -> bool {
    let g1 = node(Some(0));
    let g2 = node(Some(1));
    let a = node(None);
    let b = node(None);
    let c = node(None);
    link(&g1, &g2);
    link(&g2, &g1);
    link(&a, &b);
    link(&b, &a);
    link(&b, &c);
    let w = Rc::downgrade(&a);
    REGISTRY.with(|r| *r.borrow_mut() = vec![Some(Rc::clone(&a)), Some(Rc::clone(&c))]);
    drop((a, b, c)); // a, b, c stay alive through the registry
    drop(g2);
    drop(g1); // collects {g1, g2}; their destructors release registry[0] and registry[1]
    assert!(REGISTRY.with(|r| r.borrow().iter().all(Option::is_none)));
    w.upgrade().is_none()
}

#[test]
fn what_one_drop_destroys_depends_on_addresses() {
    let mut collected = 0;
    let mut leaked = 0;
    let mut unrelated = Vec::new();
    for round in 0..64 {
        // unrelated allocations shift the addresses of the next objects
        for _ in 0..(round % 7) {
            unrelated.push(Box::new([0u8; 48]));
        }
        if history() {
            collected += 1;
        } else {
            leaked += 1;
        }
    }
    assert!(
        collected == 0 || leaked == 0,
        "same calls, different layouts: collected {collected} times, leaked {leaked} times"
    );
}
