// FINDING 3 -- a payload destructor that moves its child handles out of the
//              dying value (deferred / iterative child release) is left with
//              dangling `Rc`s when the owner dies as part of a collected cycle
//
// Properties violated
//   C02: the allocation of a group member is released while a strong handle
//   to it still exists; the next use of that handle (even just dropping it)
//   makes the library read freed memory.
//   C10 (borderline, see "Contracts"): user code running inside the library's
//   teardown ends up with corrupted handles although it performs no API call
//   on a dying object.
//
// Contracts
//   All adoptions are honest: `x` adopts `y` exactly when a clone of `y` is
//   stored in `x`'s value (adopt_unchecked, then push), and nothing is removed
//   from a *live* object without `unadopt`.  The only unusual thing is the
//   payload's `Drop`: instead of letting its `Vec<Rc<Node>>` field be dropped
//   in place, it moves the handles to a thread-local work list that the
//   program drains later -- the standard trick for releasing deep structures
//   without recursion.  That is a plain Rust move of a field in `drop(&mut
//   self)`; no cactusref function is called with a handle to a dying object.
//   `unadopt` cannot be called at that point (it needs an `Rc` to the dying
//   owner, which no longer exists: `Weak::upgrade` returns `None`).
//   With `std::rc::Rc` the same program is sound: the moved handle keeps `b`
//   alive.  C10 only promises re-entrancy for "objects not being destroyed",
//   so whether this counts as a C10 violation is debatable; the dangling
//   handle in safe code is a C02 problem either way.
//
// What fails
//   natively: `collected_member_is_destroyed_while_a_handle_exists` fails its
//             assertion deterministically (b's destructor has run although
//             the program still holds a strong handle to b).
//             `stashed_handle_dangles` reads freed memory: observed
//             `strong_count` garbage and SIGSEGV / heap corruption on drop.
//   Miri:     `stashed_handle_dangles`: "Undefined Behavior: ... encountered a
//             dangling reference (use-after-free)" in `Rc::inner` called from
//             `Rc::strong_count` (or from `<Rc as Drop>::drop` if the
//             `strong_count` line is removed).
//
// Mechanism (src/drop.rs, `drop_cycle`)
//   Phase 2 (drop.rs:272-299) marks *every* member uninit and moves all
//   values into `inners`; `drop(inners)` (drop.rs:301) runs the user
//   destructors; phase 3 (drop.rs:303-346) then unconditionally releases the
//   implicit weak of every member and deallocates it when `weak == 0`.  The
//   library assumes that every strong handle counted for a member was dropped
//   by `drop(inners)`.  Handles that a destructor moved elsewhere survive
//   phase 2, but phase 3 frees the RcBox anyway: the strong count was
//   overwritten with the `usize::MAX` "uninit" marker (drop.rs:286) in phase 2,
//   so there is no count left that could tell phase 3 that handles remain.
//   The same holds for `drop_unreachable_with_adoptions` only trivially (the
//   dying object has no strong handles); the defect is specific to groups.

use cactusref::{Adopt, Rc};
use std::cell::{Cell, RefCell};

thread_local! {
    // handles whose release has been deferred by a destructor
    static DEFERRED: RefCell<Vec<Rc<Node>>> = RefCell::new(Vec::new());
    static B_DESTROYED: Cell<bool> = const { Cell::new(false) };
}

struct Node {
    name: &'static str,
    kids: RefCell<Vec<Rc<Node>>>,
    defer_children: bool,
}

impl Drop for Node {
    fn drop(&mut self) {
        if self.name == "b" {
            B_DESTROYED.with(|f| f.set(true));
        }
        if self.defer_children {
            // iterative release: hand the children to a work list
            let kids = std::mem::take(self.kids.get_mut());
            DEFERRED.with(|d| d.borrow_mut().extend(kids));
        }
    }
}

fn node(name: &'static str, defer_children: bool) -> Rc<Node> {
    Rc::new(Node {
        name,
        kids: RefCell::new(Vec::new()),
        defer_children,
    })
}

fn link(owner: &Rc<Node>, child: &Rc<Node>) {
    let h = Rc::clone(child);
    unsafe { Rc::adopt_unchecked(owner, &h) };
    owner.kids.borrow_mut().push(h);
}

fn build_and_release_ring() {
    let a = node("a", true);
    let b = node("b", false);
    link(&a, &b);
    link(&b, &a);
    drop(a);
    drop(b); // orphaned ring {a, b} is collected here
}

#[test]
fn collected_member_is_destroyed_while_a_handle_exists() {
    build_and_release_ring();
    let deferred = DEFERRED.with(|d| std::mem::take(&mut *d.borrow_mut()));
    assert_eq!(deferred.len(), 1); // a's handle to b
    let b_destroyed = B_DESTROYED.with(Cell::get);
    // do not touch the dangling handle in this test
    std::mem::forget(deferred);
    assert!(
        !b_destroyed,
        "b's value was destroyed although a strong handle to b is still held"
    );
}

#[test]
fn stashed_handle_dangles() {
    build_and_release_ring();
    let deferred = DEFERRED.with(|d| std::mem::take(&mut *d.borrow_mut()));
    assert_eq!(deferred.len(), 1);
    // b's RcBox has been deallocated by phase 3 of drop_cycle.
    let n = Rc::strong_count(&deferred[0]); // <- Miri: use-after-free
    assert_eq!(n, 1);
    drop(deferred);
}
