use std::cell::{Cell, RefCell};
use cactusref::{Adopt, Rc};

thread_local!(static DROPS: Cell<usize> = Cell::new(0));

#[derive(Default)]
struct Node {
    kids: RefCell<Vec<Rc<Node>>>,
}
impl Drop for Node {
    fn drop(&mut self) { DROPS.with(|d| d.set(d.get() + 1)); }
}

fn own(owner: &Rc<Node>, target: &Rc<Node>) {
    owner.kids.borrow_mut().push(Rc::clone(target));
    unsafe { Rc::adopt_unchecked(owner, target) };
}

// a is owned by b and by c, and owns both: an honestly recorded group {a, b, c}.
// `adopt_unchecked(&a, &a)` through one handle is the documented no-op self-adoption.
#[test]
fn noop_self_adoption_does_not_keep_an_orphaned_group_alive() {
    let a = Rc::new(Node::default());
    let b = Rc::new(Node::default());
    let c = Rc::new(Node::default());
    own(&a, &b); own(&a, &c); own(&b, &a); own(&c, &a);
    unsafe { Rc::adopt_unchecked(&a, &a) };
    drop(b);
    drop(c);
    assert_eq!(DROPS.with(Cell::get), 0);
    drop(a);
    assert_eq!(DROPS.with(Cell::get), 3, "the group is orphaned and must be destroyed by the drop that orphans it");
}

#[test]
fn control_without_the_noop_call() {
    let a = Rc::new(Node::default());
    let b = Rc::new(Node::default());
    let c = Rc::new(Node::default());
    own(&a, &b); own(&a, &c); own(&b, &a); own(&c, &a);
    drop(b);
    drop(c);
    let before = DROPS.with(Cell::get);
    drop(a);
    assert_eq!(DROPS.with(Cell::get) - before, 3);
}
