use std::cell::RefCell;
use cactusref::{Adopt, Rc};

#[derive(Default)]
struct Node {
    kids: RefCell<Vec<Rc<Node>>>,
}

// a <-> b is an honestly recorded cycle. `adopt_unchecked(&a, &a)` through one handle object is the
// "self-adoption is a no-op" call the crate's own test `adopt_self_noop` makes: nothing is stored for it.
#[test]
fn cycle_member_with_a_noop_self_adoption_is_released_once() {
    let a = Rc::new(Node::default());
    let b = Rc::new(Node::default());
    a.kids.borrow_mut().push(Rc::clone(&b));
    unsafe { Rc::adopt_unchecked(&a, &b) };
    b.kids.borrow_mut().push(Rc::clone(&a));
    unsafe { Rc::adopt_unchecked(&b, &a) };
    unsafe { Rc::adopt_unchecked(&a, &a) };
    let wa = Rc::downgrade(&a);
    drop(b);
    drop(a);
    assert!(wa.upgrade().is_none());
    assert_eq!(wa.weak_count(), 0);
    drop(wa);
}
