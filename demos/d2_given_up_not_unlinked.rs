use std::cell::RefCell;
use cactusref::{Adopt, Rc};

#[derive(Default, Clone)]
struct Node {
    kids: RefCell<Vec<Rc<Node>>>,
}

fn own(owner: &Rc<Node>, target: &Rc<Node>) {
    owner.kids.borrow_mut().push(Rc::clone(target));
    unsafe { Rc::adopt_unchecked(owner, target) };
}

// `a` owns `b` (recorded honestly). `try_unwrap(a)` hands a's value -- which still owns the handle to `b` --
// to the caller and gives a's allocation up. Nothing may keep naming that allocation.
#[test]
fn try_unwrap_of_an_owner_unlinks_it() {
    let a = Rc::new(Node::default());
    let b = Rc::new(Node::default());
    own(&a, &b);
    let value = Rc::try_unwrap(a).ok().expect("sole handle");
    assert_eq!(Rc::strong_count(&b), 2);
    drop(b); // one handle to b remains inside `value`
    assert_eq!(value.kids.borrow().len(), 1);
    assert_eq!(Rc::strong_count(&value.kids.borrow()[0]), 1);
    drop(value);
}

// Same with `make_mut` when only Weak handles share the allocation (the value is moved to a new allocation).
#[test]
fn make_mut_steal_of_an_owner_unlinks_the_old_allocation() {
    let mut a = Rc::new(Node::default());
    let b = Rc::new(Node::default());
    own(&a, &b);
    let w = Rc::downgrade(&a);
    let _ = Rc::make_mut(&mut a);
    assert!(w.upgrade().is_none());
    drop(w); // the old allocation is released here
    drop(b);
    assert_eq!(Rc::strong_count(&a.kids.borrow()[0]), 1);
    drop(a);
}
