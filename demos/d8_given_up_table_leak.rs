// FINDING 4 -- (low severity: a memory LEAK, no inconsistency) `try_unwrap` and
// the Weak-stealing branch of `make_mut` never release the adoption table of
// the allocation they give up, even when every adoption was undone with
// `unadopt` before the call.
//
// This is NOT the known "peers keep records naming the given-up allocation"
// problem: at the time of the calls below the object has no adoption record
// in either direction and no peer mentions it.
//
// Property touched
//   C12 (handle-consuming APIs on objects that take, or took, part in
//   adoptions) in spirit -- the remaining graph is consistent and nothing is
//   touched after free, but the given-up allocation's bookkeeping storage is
//   lost for good.  std::rc::Rc has no such storage, so under C07's reading
//   ("drop-in replacement") `try_unwrap`/`make_mut` release everything.
//
// Contracts
//   One adoption, recorded for a stored clone; the stored clone is removed
//   again and `Rc::unadopt` is called for it (the protocol of the `unadopt`
//   doc example: pop, unadopt, drop).  `try_unwrap` is called on sole strong
//   handles; `make_mut` on a sole strong handle with one outstanding `Weak`.
//
// What fails
//   native: the test counts the live heap allocations of its own thread with
//           a counting global allocator; 2 (first test) / 1 (second test)
//           allocations are still live after everything was dropped.
//   Miri  : with leak checking enabled (i.e. WITHOUT -Zmiri-ignore-leaks) Miri
//           reports the hashbrown table allocations as leaked; with
//           -Zmiri-ignore-leaks the same assertions fail.
//
// Mechanism
//   `RcBox` (src/rc.rs:270-275) owns `links: MaybeUninit<RefCell<Links<T>>>`,
//   i.e. a hashbrown `HashMap<Link<T>, usize>` that allocates on the first
//   `adopt_unchecked` and keeps its buckets after `Links::remove`
//   (src/link.rs:49-57) empties it.  The regular teardown paths move the table
//   out and drop it (src/drop.rs:199-201, 293-301, 425-427).  `try_unwrap`
//   (src/rc.rs:432-452) only `ptr::read`s the value, lowers the strong count
//   and drops a fake `Weak`; `Weak::drop` (src/rc.rs:1691-1709) deallocates the
//   box without looking at `links`.  `make_mut`'s "steal" branch
//   (src/rc.rs:892-904) does the same with explicit `dec_strong`/`dec_weak`.
//   Nobody ever drops the `RefCell<Links<T>>` of the old box.

use cactusref::{Adopt, Rc};
use std::alloc::{GlobalAlloc, Layout, System};
use std::cell::{Cell, RefCell};

struct Counting;
thread_local! {
    // live heap allocations made by the current (test) thread
    static LIVE: Cell<isize> = const { Cell::new(0) };
}

fn live() -> isize {
    LIVE.with(Cell::get)
}

unsafe impl GlobalAlloc for Counting {
    unsafe fn alloc(&self, l: Layout) -> *mut u8 {
        let _ = LIVE.try_with(|c| c.set(c.get() + 1));
        System.alloc(l)
    }
    unsafe fn dealloc(&self, p: *mut u8, l: Layout) {
        let _ = LIVE.try_with(|c| c.set(c.get() - 1));
        System.dealloc(p, l)
    }
}

#[global_allocator]
static ALLOC: Counting = Counting;

#[derive(Clone)]
struct Node {
    slots: RefCell<Vec<Rc<Node>>>,
}

fn node() -> Rc<Node> {
    Rc::new(Node {
        slots: RefCell::new(Vec::new()),
    })
}

// a adopts b, then un-does it completely, following the documented protocol
fn adopt_and_unadopt(a: &Rc<Node>, b: &Rc<Node>) {
    a.slots.borrow_mut().push(Rc::clone(b));
    unsafe { Rc::adopt_unchecked(a, b) };
    let removed = a.slots.borrow_mut().pop().unwrap();
    Rc::unadopt(a, &removed);
    drop(removed);
}

#[test]
fn try_unwrap_after_unadopt_releases_everything() {
    let before = live();
    {
        let a = node();
        let b = node();
        adopt_and_unadopt(&a, &b);
        assert_eq!((Rc::strong_count(&a), Rc::strong_count(&b)), (1, 1));
        let vb = Rc::try_unwrap(b).ok().expect("sole handle");
        let va = Rc::try_unwrap(a).ok().expect("sole handle");
        drop(vb);
        drop(va);
    }
    let after = live();
    assert_eq!(after - before, 0, "heap allocations leaked by try_unwrap");
}

#[test]
fn make_mut_after_unadopt_releases_everything() {
    let before = live();
    {
        let a = node();
        let mut b = node();
        adopt_and_unadopt(&a, &b);
        drop(a);
        let w = Rc::downgrade(&b);
        let _ = Rc::make_mut(&mut b); // sole strong handle + a Weak: value is moved
        assert!(w.upgrade().is_none());
        drop(w);
        drop(b);
    }
    let after = live();
    assert_eq!(after - before, 0, "heap allocations leaked by make_mut");
}
