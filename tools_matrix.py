#!/usr/bin/env python3
"""Developer tool: run the analysis on every seeded patch (scratch copies) and print the detection matrix as markdown."""
import sys, os, json
sys.path.insert(0, "/verif/rules")
import selftest, props
from concurrent.futures import ProcessPoolExecutor

def relevant(pid, key):
    rule, k = key.split(":", 1)
    if rule not in props.PROPS[pid]:
        return False
    if rule == "API-1" and pid in props.API_FILTER:
        return any(x in k for x in props.API_FILTER[pid])
    return True

items = selftest.catalogue()
known = set(k["key"] for k in json.load(open("/verif/known_findings.json"))["findings"] if k["status"] == "known")
with ProcessPoolExecutor(16) as ex:
    res = list(ex.map(selftest.run_one, [(dict(it, want_counts=True), "/repo") for it in items]))
rows = []
floors = json.load(open("/verif/floors.json"))
for it, r in zip(items, res):
    iid, status, keys = r[0], r[1], r[2]
    counts = r[3] if len(r) > 3 else None
    if counts is not None and (it["kind"].startswith("benign") or it["kind"].endswith("-unsupported")) and status == "analysed":   # floors describe the current tree only
        low = sorted(ru for ru in props.RULE_TEXT if selftest.below_floor(counts, floors, ru))
        if low:
            status = "below-floor:" + ",".join(low)
    keys = [k for k in keys if k not in known]
    pids = [p for p in props.PROPS if any(relevant(p, k) for k in keys)]
    rules = sorted(set(k.split(":")[0] for k in keys))
    rows.append((iid, it["kind"], status, rules, pids, it["edit"][:90], it.get("properties")))
print("| patch | kind | rules reporting it | checks that exit 1 | edit |")
print("|---|---|---|---|---|")
for iid, kind, status, rules, pids, edit, exp in rows:
    if not status.startswith("analysed"):
        print("| %s | %s | (%s) | | %s |" % (iid, kind, status, edit))
    else:
        print("| %s | %s | %s | %s | %s |" % (iid, kind, ", ".join(rules) or "—", ", ".join(pids) or "—", edit.replace("|", "/")))
json.dump([{"id": r[0], "kind": r[1], "status": r[2], "rules": r[3], "checks": r[4]} for r in rows], open("/tmp/matrix.json", "w"), indent=1)

# cross-checks printed to stderr: every catalogued defect is reported by the checks of the properties it was written for;
# every behaviour-preserving variant is silent and keeps every anchor
cat = json.load(open("/verif/mutants/catalogue.json"))
bad = 0
for iid, kind, status, rules, pids, edit, exp in rows:
    if kind.endswith("-unsupported"):
        # (a lost anchor -- a rule below its floor -- is the check's exit 2 as well)
        if pids or not (status == "inconclusive" or status.startswith("below-floor:")):
            print("UNSUPPORTED VARIANT NOT INCONCLUSIVE", iid, status, rules, pids, file=sys.stderr); bad += 1
        continue
    if kind.startswith("benign") and (pids or not status.startswith("analysed")):
        print("BENIGN ALARM", iid, status, rules, pids, file=sys.stderr); bad += 1
    if kind == "defect":
        miss = [p for p in (exp or []) if p and p not in pids]
        if not pids or miss:
            print("DEFECT NOT REPORTED", iid, "expected", exp, "reported", pids, file=sys.stderr); bad += 1
print("matrix: %d rows, %d problems" % (len(rows), bad), file=sys.stderr)
