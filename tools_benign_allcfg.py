#!/usr/bin/env python3
"""Developer tool: evaluate every behaviour-preserving variant of the catalogue in all four build configurations
(the matrix evaluates them in `dev` only, the registered checks analyse all four)."""
import sys, json
sys.path.insert(0, "/verif/rules")
import selftest
from concurrent.futures import ProcessPoolExecutor
known = set(k["key"] for k in json.load(open("/verif/known_findings.json"))["findings"] if k["status"] == "known")
items = [dict(it, configs=["dev", "nodebug", "nostd", "nostd-nodebug"]) for it in selftest.catalogue() if it["kind"] == "benign"]
with ProcessPoolExecutor(16) as ex:
    res = list(ex.map(selftest.run_one, [(it, "/repo") for it in items]))
bad = 0
for it, r in zip(items, res):
    keys = [k for k in r[2] if k not in known] if r[1].startswith("analysed") else r[2]
    if keys or not r[1].startswith("analysed"):
        bad += 1
        print(it["id"], r[1], keys[:5])
print("benign variants in all configurations: %d, with reports: %d" % (len(items), bad))
