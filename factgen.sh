#!/bin/bash
# usage: factgen.sh <repo-dir> <out.json> [config]
#   config: dev (default) | nodebug | nostd | nostd-nodebug
# Runs `cargo +nightly check --lib` on <repo-dir> with the factgen driver as
# RUSTC_WORKSPACE_WRAPPER in a fresh target dir (so cargo cannot replay a
# cached result without invoking the driver). Exits non-zero if no fact file
# was produced by this run.
set -u
REPO="$1"; OUT="$2"; CFG="${3:-dev}"
HERE="$(cd "$(dirname "$0")" && pwd)"
DRV="$HERE/driver/target/release/factgen"
[ -x "$DRV" ] || { echo "factgen: driver not built (run setup.sh)" >&2; exit 2; }
SYSROOT="$(rustc +nightly --print sysroot)"
TD="$(mktemp -d /tmp/factgen-target.XXXXXX)"
trap 'rm -rf "$TD"' EXIT
rm -f "$OUT"
FLAGS="-Zmir-opt-level=0 -Awarnings"
EXTRA=""
case "$CFG" in
  dev) ;;
  nodebug) FLAGS="$FLAGS -Cdebug-assertions=off -Coverflow-checks=off" ;;
  nostd) EXTRA="--no-default-features" ;;
  nostd-nodebug) EXTRA="--no-default-features"; FLAGS="$FLAGS -Cdebug-assertions=off -Coverflow-checks=off" ;;
  *) echo "factgen: unknown config $CFG" >&2; exit 2 ;;
esac
cd "$REPO" || exit 2
LD_LIBRARY_PATH="$SYSROOT/lib${LD_LIBRARY_PATH:+:$LD_LIBRARY_PATH}" \
CARGO_NET_OFFLINE=true \
RUSTFLAGS="$FLAGS" \
RUSTC_WORKSPACE_WRAPPER="$DRV" \
CARGO_TARGET_DIR="$TD" \
FACTGEN_OUT="$OUT" FACTGEN_CRATE=cactusref \
cargo +nightly check --offline --lib $EXTRA >"$TD/cargo.log" 2>&1
RC=$?
if [ $RC -ne 0 ]; then
  echo "factgen: cargo check failed (rc=$RC)" >&2
  tail -40 "$TD/cargo.log" >&2
  exit 3
fi
[ -s "$OUT" ] || { echo "factgen: no fact file written" >&2; tail -20 "$TD/cargo.log" >&2; exit 3; }
exit 0
