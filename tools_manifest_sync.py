#!/usr/bin/env python3
"""Developer tool: keep the `Rules: ...` suffix of every MANIFEST level text in step with rules/props.py and validate against the schema."""
import json, re, sys
sys.path.insert(0, "/verif/rules")
import props
m = json.load(open("/verif/MANIFEST.json"))
for c in m["checks"]:
    pid = c["property_id"]
    t = c["level_claimed"]["text"]
    t = re.sub(r"\s*Rules: [A-Z0-9, -]+\.\s*$", "", t)
    c["level_claimed"]["text"] = t + " Rules: " + ", ".join(props.PROPS[pid]) + "."
m["not_applicable"] = [{"property_id": k, "reason": v} if isinstance(m["not_applicable"][0], dict) else k for k, v in props.NOT_APPLICABLE.items()] if m.get("not_applicable") else m.get("not_applicable")
json.dump(m, open("/verif/MANIFEST.json", "w"), indent=1)
try:
    import jsonschema
    jsonschema.validate(m, json.load(open("/root/.vp/MANIFEST.schema.json")))
    print("MANIFEST valid;", len(m["checks"]), "checks")
except ImportError:
    print("jsonschema not importable here; run with python3-vt")
