//! factgen: a rustc_private driver that dumps the type-checked program of the
//! crate under analysis (MIR control-flow graphs with resolved callees, unwind
//! edges and elaborated drops, plus item-level facts) as one JSON document.
//!
//! Used as RUSTC_WORKSPACE_WRAPPER: argv[1] is the real rustc path and is
//! dropped. Facts are written only for the crate named by FACTGEN_CRATE
//! (default "cactusref") to the file named by FACTGEN_OUT, in a single write.
#![feature(rustc_private)]

extern crate rustc_abi;
extern crate rustc_driver;
extern crate rustc_hir;
extern crate rustc_interface;
extern crate rustc_middle;
extern crate rustc_session;
extern crate rustc_span;

use rustc_driver::Compilation;
use rustc_hir::def::DefKind;
use rustc_hir::def_id::{DefId, LOCAL_CRATE};
use rustc_middle::mir::{
    AggregateKind, BasicBlock, Body, BorrowKind, CastKind, ConstOperand, Operand, Place,
    PlaceElem, Rvalue, StatementKind, TerminatorKind, UnwindAction,
};
use rustc_middle::ty::{self, Instance, Ty, TyCtxt, TypeVisitableExt, TypingEnv};
use std::fmt::Write as _;

struct Cb;

fn esc(s: &str) -> String {
    let mut o = String::with_capacity(s.len() + 2);
    o.push('"');
    for c in s.chars() {
        match c {
            '"' => o.push_str("\\\""),
            '\\' => o.push_str("\\\\"),
            '\n' => o.push_str("\\n"),
            '\r' => o.push_str("\\r"),
            '\t' => o.push_str("\\t"),
            c if (c as u32) < 0x20 => {
                let _ = write!(o, "\\u{:04x}", c as u32);
            }
            c => o.push(c),
        }
    }
    o.push('"');
    o
}

fn opt_str(s: Option<String>) -> String {
    match s {
        Some(s) => esc(&s),
        None => "null".to_string(),
    }
}

struct Cx<'tcx> {
    tcx: TyCtxt<'tcx>,
}

impl<'tcx> Cx<'tcx> {
    fn path(&self, did: DefId) -> String {
        let krate = self.tcx.crate_name(did.krate).to_string();
        let p = self.tcx.def_path_str(did);
        if did.is_local() {
            format!("{}::{}", krate, p)
        } else {
            p
        }
    }

    /// ADT behind any number of references / raw pointers.
    fn ty_adt(&self, ty: Ty<'tcx>) -> (Option<DefId>, u32) {
        let mut t = ty;
        let mut depth = 0;
        loop {
            match t.kind() {
                ty::Ref(_, inner, _) => {
                    t = *inner;
                    depth += 1;
                }
                ty::RawPtr(inner, _) => {
                    t = *inner;
                    depth += 1;
                }
                ty::Adt(def, _) => return (Some(def.did()), depth),
                _ => return (None, depth),
            }
        }
    }

    /// What can run when a value of this type is dropped:
    /// bit 0 = the destructor of a type parameter (user code),
    /// bit 1 = the destructor of a handle type defined in the analysed crate
    ///         (an ADT of the local crate with a Drop impl).
    /// Raw pointers, references, NonNull and PhantomData own nothing.
    fn drop_runs(&self, ty: Ty<'tcx>, depth: u32) -> u32 {
        if depth > 12 {
            return 1;
        }
        let tcx = self.tcx;
        match ty.kind() {
            ty::Param(_) => 1,
            ty::Adt(def, args) => {
                if def.is_phantom_data() || def.is_manually_drop() {
                    return 0;
                }
                let mut r = 0;
                if tcx.adt_destructor(def.did()).is_some() {
                    if def.did().is_local() {
                        r |= 2;
                        // a local handle's destructor may in turn destroy user values
                        r |= 1;
                        return r;
                    }
                    // foreign container with a destructor: it drops what its type arguments own
                    for a in args.iter() {
                        if let Some(t) = a.as_type() {
                            r |= self.drop_runs(t, depth + 1);
                        }
                    }
                    return r;
                }
                if def.is_union() {
                    return 0;
                }
                for f in def.all_fields() {
                    let fty = f.ty(tcx, args);
                    r |= self.drop_runs(fty, depth + 1);
                    if r == 3 {
                        break;
                    }
                }
                r
            }
            ty::Tuple(ts) => {
                let mut r = 0;
                for t in ts.iter() {
                    r |= self.drop_runs(t, depth + 1);
                }
                r
            }
            ty::Array(t, _) | ty::Slice(t) => self.drop_runs(*t, depth + 1),
            ty::Closure(_, cargs) => {
                let mut r = 0;
                for t in cargs.as_closure().upvar_tys().iter() {
                    r |= self.drop_runs(t, depth + 1);
                }
                r
            }
            ty::Ref(..) | ty::RawPtr(..) | ty::FnDef(..) | ty::FnPtr(..) | ty::Never | ty::Bool | ty::Char
            | ty::Int(_) | ty::Uint(_) | ty::Float(_) | ty::Str => 0,
            ty::Pat(inner, _) => self.drop_runs(*inner, depth + 1),
            ty::Alias(..) if !ty.has_param() => 0,
            other => { if std::env::var("FACTGEN_DEBUG").is_ok() { eprintln!("drop_runs fallthrough: {:?}", other); } 1 }
        }
    }

    /// Local ADTs with a Drop impl whose destructor the drop glue of `ty` can run (by definition path).
    fn local_dtors(&self, ty: Ty<'tcx>, depth: u32, out: &mut Vec<String>) {
        if depth > 8 {
            return;
        }
        let tcx = self.tcx;
        match ty.kind() {
            ty::Adt(def, args) => {
                if def.is_phantom_data() || def.is_manually_drop() || def.is_union() {
                    return;
                }
                if tcx.adt_destructor(def.did()).is_some() {
                    if def.did().is_local() {
                        let p = self.path(def.did());
                        if !out.contains(&p) {
                            out.push(p);
                        }
                        return;
                    }
                    for a in args.iter() {
                        if let Some(t) = a.as_type() {
                            self.local_dtors(t, depth + 1, out);
                        }
                    }
                    return;
                }
                for f in def.all_fields() {
                    self.local_dtors(f.ty(tcx, args), depth + 1, out);
                }
            }
            ty::Tuple(ts) => {
                for t in ts.iter() {
                    self.local_dtors(t, depth + 1, out);
                }
            }
            ty::Array(t, _) | ty::Slice(t) => self.local_dtors(*t, depth + 1, out),
            ty::Closure(_, cargs) => {
                for t in cargs.as_closure().upvar_tys().iter() {
                    self.local_dtors(t, depth + 1, out);
                }
            }
            _ => {}
        }
    }

    fn ty_json(&self, ty: Ty<'tcx>, env: TypingEnv<'tcx>) -> String {
        self.ty_json_d(ty, env, 0)
    }

    fn ty_json_d(&self, ty: Ty<'tcx>, env: TypingEnv<'tcx>, nest: u32) -> String {
        let (adt, depth) = self.ty_adt(ty);
        let mut o = String::new();
        let _ = write!(o, "{{\"s\":{}", esc(&ty.to_string()));
        // type arguments of an ADT (one level of nesting is enough for containers of the crate's types)
        if nest < 2 {
            if let ty::Adt(_, args) = ty.kind() {
                let mut parts: Vec<String> = Vec::new();
                for a in args.iter() {
                    if let Some(t) = a.as_type() {
                        parts.push(self.ty_json_d(t, env, nest + 1));
                    }
                }
                if !parts.is_empty() {
                    let _ = write!(o, ",\"args\":[{}]", parts.join(","));
                }
            }
            if let ty::Tuple(ts) = ty.kind() {
                let parts: Vec<String> = ts.iter().map(|t| self.ty_json_d(t, env, nest + 1)).collect();
                if !parts.is_empty() {
                    let _ = write!(o, ",\"args\":[{}]", parts.join(","));
                }
            }
        }
        if nest < 2 {
            if let ty::FnDef(did, fargs) = ty.kind() {
                // parameter types of a fn item (e.g. the element type of `for_each(drop)`)
                let sig = self.tcx.instantiate_bound_regions_with_erased(self.tcx.fn_sig(*did).instantiate(self.tcx, fargs).skip_norm_wip());
                let parts: Vec<String> = sig.inputs().iter().filter(|t| !t.has_escaping_bound_vars()).map(|t| self.ty_json_d(*t, env, nest + 1)).collect();
                if !parts.is_empty() {
                    let _ = write!(o, ",\"fnin\":[{}]", parts.join(","));
                }
            }
        }
        if ty.needs_drop(self.tcx, env) {
            let mut l: Vec<String> = Vec::new();
            self.local_dtors(ty, 0, &mut l);
            if !l.is_empty() {
                let parts: Vec<String> = l.iter().map(|p| esc(p)).collect();
                let _ = write!(o, ",\"ldt\":[{}]", parts.join(","));
            }
        }
        if let Some(a) = adt {
            let _ = write!(o, ",\"adt\":{},\"peel\":{}", esc(&self.path(a)), depth);
        }
        let kind = match ty.kind() {
            ty::Ref(_, _, m) => {
                if m.is_mut() {
                    "refmut"
                } else {
                    "ref"
                }
            }
            ty::RawPtr(_, m) => {
                if m.is_mut() {
                    "ptrmut"
                } else {
                    "ptr"
                }
            }
            ty::Adt(..) => "adt",
            ty::Closure(..) => "closure",
            ty::FnDef(..) => "fndef",
            ty::FnPtr(..) => "fnptr",
            ty::Tuple(..) => "tuple",
            ty::Param(..) => "param",
            ty::Bool => "bool",
            ty::Int(..) | ty::Uint(..) => "int",
            ty::Never => "never",
            ty::Array(..) | ty::Slice(..) => "slice",
            _ => "other",
        };
        let _ = write!(o, ",\"k\":{}", esc(kind));
        if let ty::Closure(did, _) = ty.kind() {
            let _ = write!(o, ",\"closure\":{}", esc(&self.path(*did)));
        }
        if let ty::FnDef(did, _) = ty.kind() {
            let _ = write!(o, ",\"fndef\":{}", esc(&self.path(*did)));
        }
        let has_param = ty.has_param();
        let needs_drop = ty.needs_drop(self.tcx, env);
        let dp = if needs_drop { self.drop_runs(ty, 0) } else { 0 };
        // what the drop glue of the *fields* can run (ignoring the type's own Drop impl)
        let mut dpf = dp;
        let mut own_dtor = false;
        if let ty::Adt(def, args) = ty.kind() {
            if self.tcx.adt_destructor(def.did()).is_some() && !def.is_union() {
                own_dtor = true;
                dpf = 0;
                for f in def.all_fields() {
                    let fty = f.ty(self.tcx, args);
                    if fty.needs_drop(self.tcx, env) {
                        dpf |= self.drop_runs(fty, 1);
                    }
                }
            }
        }
        let _ = write!(o, ",\"hp\":{},\"nd\":{},\"dp\":{},\"dpf\":{},\"dtor\":{}}}", has_param, needs_drop, dp, dpf, own_dtor);
        o
    }

    fn place_json(&self, body: &Body<'tcx>, pl: &Place<'tcx>) -> String {
        let mut o = String::new();
        let _ = write!(o, "{{\"l\":{},\"p\":[", pl.local.as_usize());
        let mut pty = rustc_middle::mir::PlaceTy::from_ty(body.local_decls[pl.local].ty);
        let mut first = true;
        for elem in pl.projection.iter() {
            if !first {
                o.push(',');
            }
            first = false;
            match elem {
                PlaceElem::Deref => o.push_str("\"*\""),
                PlaceElem::Field(f, _fty) => {
                    let mut name = f.as_usize().to_string();
                    let mut of = String::new();
                    match pty.ty.kind() {
                        ty::Adt(def, _) => {
                            let vidx = pty.variant_index.unwrap_or(rustc_abi::FIRST_VARIANT);
                            let v = def.variant(vidx);
                            if let Some(fd) = v.fields.get(f) {
                                name = fd.name.to_string();
                            }
                            of = self.path(def.did());
                        }
                        ty::Closure(did, _) => {
                            of = format!("closure:{}", self.path(*did));
                        }
                        ty::Tuple(_) => {
                            of = "tuple".to_string();
                        }
                        _ => {}
                    }
                    let _ = write!(
                        o,
                        "{{\"f\":{},\"n\":{},\"of\":{}}}",
                        f.as_usize(),
                        esc(&name),
                        esc(&of)
                    );
                }
                PlaceElem::Downcast(sym, vidx) => {
                    let n = sym.map(|s| s.to_string()).unwrap_or_else(|| vidx.as_usize().to_string());
                    let _ = write!(o, "{{\"dc\":{},\"vi\":{}}}", esc(&n), vidx.as_usize());
                }
                PlaceElem::Index(l) => {
                    let _ = write!(o, "{{\"idx\":{}}}", l.as_usize());
                }
                other => {
                    let _ = write!(o, "{{\"x\":{}}}", esc(&format!("{:?}", other)));
                }
            }
            pty = pty.projection_ty(self.tcx, elem);
        }
        o.push_str("]}");
        o
    }

    fn callee_json(&self, did: DefId, args: ty::GenericArgsRef<'tcx>, env: TypingEnv<'tcx>) -> String {
        let tcx = self.tcx;
        let mut o = String::new();
        let _ = write!(
            o,
            "{{\"def\":{},\"crate\":{},\"full\":{},\"local\":{}",
            esc(&self.path(did)),
            esc(&tcx.crate_name(did.krate).to_string()),
            esc(&tcx.def_path_str_with_args(did, args)),
            did.is_local()
        );
        // generic args
        o.push_str(",\"args\":[");
        let mut first = true;
        for a in args.iter() {
            if !first {
                o.push(',');
            }
            first = false;
            o.push_str(&esc(&a.to_string()));
        }
        o.push(']');
        // type-valued generic args with structure
        o.push_str(",\"targs\":[");
        let mut first = true;
        for a in args.iter() {
            if let Some(t) = a.as_type() {
                if !first {
                    o.push(',');
                }
                first = false;
                o.push_str(&self.ty_json(t, env));
            }
        }
        o.push(']');
        // trait method?
        if let Some(tr) = tcx.trait_of_assoc(did) {
            let _ = write!(o, ",\"trait\":{}", esc(&self.path(tr)));
            if let Some(st) = args.get(0).and_then(|a| a.as_type()) {
                let _ = write!(o, ",\"self_ty\":{}", self.ty_json(st, env));
            }
        }
        // inherent impl self type
        if let Some(imp) = tcx.impl_of_assoc(did) {
            // the impl's own parameters are a prefix of the callee's generic args: substitute them, so that the type
            // is expressed over the *caller's* parameters (an identity-instantiated `[T; N]` of a foreign impl names
            // parameters the caller's environment does not know)
            let st = tcx.type_of(imp).instantiate(tcx, args).skip_norm_wip();
            let _ = write!(o, ",\"impl_self\":{}", self.ty_json(st, env));
            if let Some(tr) = tcx.impl_opt_trait_ref(imp) {
                let tr = tr.instantiate_identity().skip_norm_wip();
                let _ = write!(o, ",\"impl_trait\":{}", esc(&self.path(tr.def_id)));
            }
        }
        // resolution
        let resolved = std::panic::catch_unwind(std::panic::AssertUnwindSafe(|| {
            Instance::try_resolve(tcx, env, did, args)
        }));
        if let Ok(Ok(Some(inst))) = resolved {
            let rd = inst.def_id();
            let _ = write!(
                o,
                ",\"resolved\":{},\"resolved_crate\":{},\"resolved_kind\":{}",
                esc(&self.path(rd)),
                esc(&tcx.crate_name(rd.krate).to_string()),
                esc(&format!("{:?}", std::mem::discriminant(&inst.def)).replace("Discriminant", ""))
            );
            let kind = match inst.def {
                ty::InstanceKind::Item(_) => "item",
                ty::InstanceKind::Intrinsic(_) => "intrinsic",
                ty::InstanceKind::Virtual(..) => "virtual",
                ty::InstanceKind::DropGlue(..) => "dropglue",
                ty::InstanceKind::ClosureOnceShim { .. } => "closure_once_shim",
                ty::InstanceKind::FnPtrShim(..) => "fnptr_shim",
                ty::InstanceKind::CloneShim(..) => "clone_shim",
                _ => "other",
            };
            let _ = write!(o, ",\"rk\":{}", esc(kind));
        }
        if tcx.is_intrinsic(did, rustc_span::sym::abort) || tcx.intrinsic(did).is_some() {
            if let Some(i) = tcx.intrinsic(did) {
                let _ = write!(o, ",\"intrinsic\":{}", esc(&i.name.to_string()));
            }
        }
        o.push('}');
        o
    }

    fn const_json(&self, c: &ConstOperand<'tcx>, env: TypingEnv<'tcx>) -> String {
        let tcx = self.tcx;
        let ty = c.const_.ty();
        let mut o = String::new();
        let _ = write!(o, "{{\"k\":\"const\",\"ty\":{}", self.ty_json(ty, env));
        if let ty::FnDef(did, args) = ty.kind() {
            let _ = write!(o, ",\"fn\":{}", self.callee_json(*did, args, env));
        }
        // integer / bool / char scalars
        let is_scalar_ty = matches!(ty.kind(), ty::Int(_) | ty::Uint(_) | ty::Bool | ty::Char);
        if is_scalar_ty {
            let r = std::panic::catch_unwind(std::panic::AssertUnwindSafe(|| {
                c.const_.try_eval_scalar_int(tcx, env)
            }));
            if let Ok(Some(si)) = r {
                let bits = si.to_bits(si.size());
                let _ = write!(o, ",\"int\":{}", esc(&bits.to_string()));
                let _ = write!(o, ",\"size\":{}", si.size().bytes());
            }
        }
        let _ = write!(o, ",\"desc\":{}}}", esc(&format!("{}", c.const_)));
        o
    }

    fn op_json(&self, body: &Body<'tcx>, op: &Operand<'tcx>, env: TypingEnv<'tcx>) -> String {
        match op {
            Operand::Copy(p) => format!("{{\"k\":\"copy\",\"pl\":{}}}", self.place_json(body, p)),
            Operand::Move(p) => format!("{{\"k\":\"move\",\"pl\":{}}}", self.place_json(body, p)),
            Operand::Constant(c) => self.const_json(c, env),
            #[allow(unreachable_patterns)]
            other => format!("{{\"k\":\"other\",\"desc\":{}}}", esc(&format!("{:?}", other))),
        }
    }

    fn rvalue_json(&self, body: &Body<'tcx>, rv: &Rvalue<'tcx>, env: TypingEnv<'tcx>) -> String {
        match rv {
            Rvalue::Use(op, ..) => format!("{{\"k\":\"use\",\"op\":{}}}", self.op_json(body, op, env)),
            Rvalue::Ref(_, bk, pl) => {
                let m = matches!(bk, BorrowKind::Mut { .. });
                format!("{{\"k\":\"ref\",\"mut\":{},\"pl\":{}}}", m, self.place_json(body, pl))
            }
            Rvalue::RawPtr(k, pl) => {
                let m = format!("{:?}", k);
                format!("{{\"k\":\"addr\",\"mut\":{},\"pl\":{}}}", m.contains("Mut"), self.place_json(body, pl))
            }
            Rvalue::Cast(ck, op, ty) => {
                let ckn = match ck {
                    CastKind::PtrToPtr => "PtrToPtr".to_string(),
                    CastKind::Transmute => "Transmute".to_string(),
                    CastKind::IntToInt => "IntToInt".to_string(),
                    CastKind::PointerExposeProvenance => "PtrToInt".to_string(),
                    CastKind::PointerWithExposedProvenance => "IntToPtr".to_string(),
                    CastKind::PointerCoercion(pc, _) => format!("Coerce:{:?}", pc),
                    other => format!("{:?}", other),
                };
                format!(
                    "{{\"k\":\"cast\",\"ck\":{},\"op\":{},\"ty\":{}}}",
                    esc(&ckn),
                    self.op_json(body, op, env),
                    self.ty_json(*ty, env)
                )
            }
            Rvalue::BinaryOp(op, ab) => format!(
                "{{\"k\":\"bin\",\"op\":{},\"a\":{},\"b\":{}}}",
                esc(&format!("{:?}", op)),
                self.op_json(body, &ab.0, env),
                self.op_json(body, &ab.1, env)
            ),
            Rvalue::UnaryOp(op, a) => format!(
                "{{\"k\":\"un\",\"op\":{},\"a\":{}}}",
                esc(&format!("{:?}", op)),
                self.op_json(body, a, env)
            ),
            Rvalue::Discriminant(pl) => format!("{{\"k\":\"discr\",\"pl\":{}}}", self.place_json(body, pl)),
            Rvalue::CopyForDeref(pl) => format!("{{\"k\":\"copyderef\",\"pl\":{}}}", self.place_json(body, pl)),
            Rvalue::Aggregate(ak, ops) => {
                let mut vindex = 0usize;
                let (akn, name, variant) = match &**ak {
                    AggregateKind::Array(_) => ("array", String::new(), String::new()),
                    AggregateKind::Tuple => ("tuple", String::new(), String::new()),
                    AggregateKind::Adt(did, vidx, _, _, _) => {
                        let def = self.tcx.adt_def(*did);
                        let v = def.variant(*vidx);
                        vindex = vidx.as_usize();
                        ("adt", self.path(*did), v.name.to_string())
                    }
                    AggregateKind::Closure(did, _) => ("closure", self.path(*did), String::new()),
                    AggregateKind::RawPtr(..) => ("rawptr", String::new(), String::new()),
                    _ => ("other", String::new(), String::new()),
                };
                let mut fields = String::new();
                if let AggregateKind::Adt(did, vidx, _, _, active) = &**ak {
                    let def = self.tcx.adt_def(*did);
                    let v = def.variant(*vidx);
                    let mut first = true;
                    if let Some(f) = active {
                        fields.push_str(&esc(&v.fields[*f].name.to_string()));
                    } else {
                        for fd in v.fields.iter() {
                            if !first {
                                fields.push(',');
                            }
                            first = false;
                            fields.push_str(&esc(&fd.name.to_string()));
                        }
                    }
                }
                let mut o = format!(
                    "{{\"k\":\"agg\",\"ak\":{},\"name\":{},\"variant\":{},\"vidx\":{},\"fields\":[{}],\"ops\":[",
                    esc(akn),
                    esc(&name),
                    esc(&variant),
                    vindex,
                    fields
                );
                let mut first = true;
                for op in ops.iter() {
                    if !first {
                        o.push(',');
                    }
                    first = false;
                    o.push_str(&self.op_json(body, op, env));
                }
                o.push_str("]}");
                o
            }
            Rvalue::Repeat(op, _) => format!("{{\"k\":\"repeat\",\"op\":{}}}", self.op_json(body, op, env)),
            other => format!("{{\"k\":\"other\",\"desc\":{}}}", esc(&format!("{:?}", other))),
        }
    }

    fn span_json(&self, span: rustc_span::Span) -> String {
        let sm = self.tcx.sess.source_map();
        let exp = span.from_expansion();
        // outermost macro name, and the call-site location of the expansion
        let mut mac = None;
        let mut local_macro = false;
        let mut s = span;
        if exp {
            let mut cur = span;
            loop {
                let ed = cur.ctxt().outer_expn_data();
                if ed.is_root() {
                    break;
                }
                if let rustc_span::ExpnKind::Macro(_, name) = ed.kind {
                    mac = Some(name.to_string());
                    // code generated by a macro of the analysed crate is ordinary crate code: it gets no macro tag
                    // (the tag makes rules skip what std / log macros expand to)
                    if ed.macro_def_id.map(|d| d.is_local()).unwrap_or(false) {
                        local_macro = true;
                    }
                } else {
                    mac.get_or_insert_with(|| format!("{:?}", ed.kind));
                }
                cur = ed.call_site;
                if !cur.from_expansion() {
                    s = cur;
                    break;
                }
            }
        }
        let loc = sm.lookup_char_pos(s.lo());
        let file = format!("{}", loc.file.name.prefer_local_unconditionally());
        format!(
            "\"file\":{},\"line\":{},\"exp\":{},\"macro\":{}",
            esc(&file),
            loc.line,
            exp && !local_macro,
            opt_str(if local_macro { None } else { mac })
        )
    }

    fn unwind_json(&self, u: &UnwindAction) -> String {
        match u {
            UnwindAction::Continue => "\"continue\"".to_string(),
            UnwindAction::Unreachable => "\"unreachable\"".to_string(),
            UnwindAction::Terminate(_) => "\"terminate\"".to_string(),
            UnwindAction::Cleanup(bb) => format!("{}", bb.as_usize()),
        }
    }

    fn bb(&self, b: &BasicBlock) -> usize {
        b.as_usize()
    }

    fn body_json(&self, did: DefId, body: &Body<'tcx>) -> String {
        let tcx = self.tcx;
        let env = TypingEnv::post_analysis(tcx, did);
        let kind = tcx.def_kind(did);
        let mut o = String::new();
        let _ = write!(o, "{{\"path\":{},\"kind\":{}", esc(&self.path(did)), esc(&format!("{:?}", kind)));
        let _ = write!(o, ",{}", self.span_json(tcx.def_span(did)));
        let _ = write!(o, ",\"argc\":{}", body.arg_count);
        if matches!(kind, DefKind::Fn | DefKind::AssocFn) {
            let vis = tcx.visibility(did);
            let _ = write!(o, ",\"vis\":{}", esc(&format!("{:?}", vis)));
            let eff = did
                .as_local()
                .map(|l| tcx.effective_visibilities(()).is_reachable(l))
                .unwrap_or(false);
            let _ = write!(o, ",\"reachable\":{}", eff);
            let sig = tcx.fn_sig(did).instantiate_identity().skip_norm_wip();
            let _ = write!(o, ",\"unsafe\":{}", !sig.safety().is_safe());
            // names of the type parameters, in the order of the type-valued generic args of a call (`targs`)
            let ids = ty::GenericArgs::identity_for_item(tcx, did);
            let names: Vec<String> = ids.iter().filter_map(|a| a.as_type()).map(|t| esc(&t.to_string())).collect();
            let _ = write!(o, ",\"tparams\":[{}]", names.join(","));
            if let Some(imp) = tcx.impl_of_assoc(did) {
                let st = tcx.type_of(imp).instantiate_identity().skip_norm_wip();
                let _ = write!(o, ",\"impl_self\":{}", self.ty_json(st, env));
                if let Some(tr) = tcx.impl_opt_trait_ref(imp) {
                    let tr = tr.instantiate_identity().skip_norm_wip();
                    let _ = write!(o, ",\"impl_trait\":{}", esc(&self.path(tr.def_id)));
                    let _ = write!(o, ",\"impl_trait_full\":{}", esc(&tr.to_string()));
                }
            }
            if let Some(tr) = tcx.trait_of_assoc(did) {
                let _ = write!(o, ",\"trait_default_of\":{}", esc(&self.path(tr)));
            }
            let _ = write!(o, ",\"name\":{}", esc(&tcx.item_name(did).to_string()));
        }
        if matches!(kind, DefKind::Closure) {
            let parent = tcx.typeck_root_def_id(did);
            let _ = write!(o, ",\"root\":{}", esc(&self.path(parent)));
        }
        // locals
        o.push_str(",\"locals\":[");
        let mut names: Vec<Option<String>> = vec![None; body.local_decls.len()];
        for vdi in body.var_debug_info.iter() {
            if let rustc_middle::mir::VarDebugInfoContents::Place(p) = &vdi.value {
                if p.projection.is_empty() {
                    names[p.local.as_usize()] = Some(vdi.name.to_string());
                } else if names[p.local.as_usize()].is_none() {
                    names[p.local.as_usize()] = Some(format!("~{}", vdi.name));
                }
            }
        }
        for (i, ld) in body.local_decls.iter().enumerate() {
            if i > 0 {
                o.push(',');
            }
            let _ = write!(
                o,
                "{{\"ty\":{},\"name\":{}}}",
                self.ty_json(ld.ty, env),
                opt_str(names[i].clone())
            );
        }
        o.push(']');
        // blocks
        o.push_str(",\"blocks\":[");
        for (bi, bbd) in body.basic_blocks.iter().enumerate() {
            if bi > 0 {
                o.push(',');
            }
            let _ = write!(o, "{{\"cleanup\":{},\"stmts\":[", bbd.is_cleanup);
            let mut first = true;
            for st in bbd.statements.iter() {
                let s = match &st.kind {
                    StatementKind::Assign(b) => Some(format!(
                        "{{\"k\":\"assign\",\"dst\":{},\"rv\":{},{}}}",
                        self.place_json(body, &b.0),
                        self.rvalue_json(body, &b.1, env),
                        self.span_json(st.source_info.span)
                    )),
                    StatementKind::SetDiscriminant { place, variant_index } => Some(format!(
                        "{{\"k\":\"setdiscr\",\"dst\":{},\"variant\":{},{}}}",
                        self.place_json(body, place),
                        variant_index.as_usize(),
                        self.span_json(st.source_info.span)
                    )),
                    StatementKind::Intrinsic(i) => Some(format!(
                        "{{\"k\":\"intrinsic\",\"desc\":{},{}}}",
                        esc(&format!("{:?}", i)),
                        self.span_json(st.source_info.span)
                    )),
                    StatementKind::StorageLive(_)
                    | StatementKind::StorageDead(_)
                    | StatementKind::Nop
                    | StatementKind::FakeRead(..)
                    | StatementKind::PlaceMention(..)
                    | StatementKind::AscribeUserType(..)
                    | StatementKind::Coverage(..)
                    | StatementKind::ConstEvalCounter
                    | StatementKind::BackwardIncompatibleDropHint { .. } => None,
                    #[allow(unreachable_patterns)]
                    other => Some(format!("{{\"k\":\"other\",\"desc\":{}}}", esc(&format!("{:?}", other)))),
                };
                if let Some(s) = s {
                    if !first {
                        o.push(',');
                    }
                    first = false;
                    o.push_str(&s);
                }
            }
            o.push_str("],\"term\":");
            let term = bbd.terminator();
            let sp = self.span_json(term.source_info.span);
            let t = match &term.kind {
                TerminatorKind::Goto { target } => format!("{{\"k\":\"goto\",\"target\":{},{}}}", self.bb(target), sp),
                TerminatorKind::SwitchInt { discr, targets } => {
                    let mut tv = String::new();
                    let mut first = true;
                    for (v, t) in targets.iter() {
                        if !first {
                            tv.push(',');
                        }
                        first = false;
                        let _ = write!(tv, "[{},{}]", esc(&v.to_string()), t.as_usize());
                    }
                    format!(
                        "{{\"k\":\"switch\",\"discr\":{},\"targets\":[{}],\"otherwise\":{},{}}}",
                        self.op_json(body, discr, env),
                        tv,
                        targets.otherwise().as_usize(),
                        sp
                    )
                }
                TerminatorKind::UnwindResume => format!("{{\"k\":\"resume\",{}}}", sp),
                TerminatorKind::UnwindTerminate(_) => format!("{{\"k\":\"terminate\",{}}}", sp),
                TerminatorKind::Return => format!("{{\"k\":\"return\",{}}}", sp),
                TerminatorKind::Unreachable => format!("{{\"k\":\"unreachable\",{}}}", sp),
                TerminatorKind::Drop { place, target, unwind, .. } => {
                    let pty = place.ty(body, tcx).ty;
                    format!(
                        "{{\"k\":\"drop\",\"pl\":{},\"ty\":{},\"target\":{},\"unwind\":{},{}}}",
                        self.place_json(body, place),
                        self.ty_json(pty, env),
                        self.bb(target),
                        self.unwind_json(unwind),
                        sp
                    )
                }
                TerminatorKind::Call { func, args, destination, target, unwind, .. } => {
                    let callee = match func {
                        Operand::Constant(c) => match c.const_.ty().kind() {
                            ty::FnDef(d, a) => self.callee_json(*d, a, env),
                            _ => "null".to_string(),
                        },
                        _ => "null".to_string(),
                    };
                    let mut av = String::new();
                    let mut first = true;
                    for a in args.iter() {
                        if !first {
                            av.push(',');
                        }
                        first = false;
                        av.push_str(&self.op_json(body, &a.node, env));
                    }
                    let mut atys = String::new();
                    let mut first = true;
                    for a in args.iter() {
                        if !first {
                            atys.push(',');
                        }
                        first = false;
                        atys.push_str(&self.ty_json(a.node.ty(body, tcx), env));
                    }
                    format!(
                        "{{\"k\":\"call\",\"callee\":{},\"fnop\":{},\"args\":[{}],\"argtys\":[{}],\"dst\":{},\"target\":{},\"unwind\":{},{}}}",
                        callee,
                        self.op_json(body, func, env),
                        av,
                        atys,
                        self.place_json(body, destination),
                        target.map(|t| t.as_usize().to_string()).unwrap_or_else(|| "null".to_string()),
                        self.unwind_json(unwind),
                        sp
                    )
                }
                TerminatorKind::Assert { cond, expected, msg, target, unwind } => {
                    let m = format!("{:?}", msg);
                    let mk = m.split(|c: char| c == '(' || c == ' ' || c == '{').next().unwrap_or("").to_string();
                    format!(
                        "{{\"k\":\"assert\",\"cond\":{},\"expected\":{},\"msg\":{},\"target\":{},\"unwind\":{},{}}}",
                        self.op_json(body, cond, env),
                        expected,
                        esc(&mk),
                        self.bb(target),
                        self.unwind_json(unwind),
                        sp
                    )
                }
                TerminatorKind::FalseEdge { real_target, .. } => {
                    format!("{{\"k\":\"goto\",\"target\":{},{}}}", self.bb(real_target), sp)
                }
                TerminatorKind::FalseUnwind { real_target, .. } => {
                    format!("{{\"k\":\"goto\",\"target\":{},{}}}", self.bb(real_target), sp)
                }
                other => format!("{{\"k\":\"other\",\"desc\":{},{}}}", esc(&format!("{:?}", other)), sp),
            };
            o.push_str(&t);
            o.push('}');
        }
        o.push_str("]}");
        o
    }

    fn items_json(&self) -> String {
        let tcx = self.tcx;
        let mut adts = Vec::new();
        let mut impls = Vec::new();
        let mut statics = Vec::new();
        let mut traits = Vec::new();
        let ev = tcx.effective_visibilities(());
        for id in tcx.hir_crate_items(()).definitions() {
            let did = id.to_def_id();
            match tcx.def_kind(did) {
                DefKind::Struct | DefKind::Enum | DefKind::Union => {
                    let def = tcx.adt_def(did);
                    let mut fs = String::new();
                    let mut first = true;
                    for v in def.variants().iter() {
                        for f in v.fields.iter() {
                            if !first {
                                fs.push(',');
                            }
                            first = false;
                            let reach = f.did.as_local().map(|l| ev.is_reachable(l)).unwrap_or(false);
                            let fty = tcx.type_of(f.did).instantiate_identity().skip_norm_wip();
                            let fenv = TypingEnv::post_analysis(tcx, did);
                            let _ = write!(
                                fs,
                                "{{\"variant\":{},\"name\":{},\"vis\":{},\"reachable\":{},\"ty\":{},\"tyj\":{}}}",
                                esc(&v.name.to_string()),
                                esc(&f.name.to_string()),
                                esc(&format!("{:?}", f.vis)),
                                reach,
                                esc(&fty.to_string()),
                                self.ty_json(fty, fenv)
                            );
                        }
                    }
                    // discriminant value of every variant of an enum (what `Rvalue::Discriminant` reads)
                    let mut vs = String::new();
                    if def.is_enum() {
                        for (i, (vi, d)) in def.discriminants(tcx).enumerate() {
                            if i > 0 {
                                vs.push(',');
                            }
                            let _ = write!(
                                vs,
                                "{{\"name\":{},\"idx\":{},\"discr\":\"{}\"}}",
                                esc(&def.variant(vi).name.to_string()),
                                vi.as_usize(),
                                d.val
                            );
                        }
                    }
                    adts.push(format!(
                        "{{\"path\":{},\"kind\":{},\"vis\":{},\"reachable\":{},\"fields\":[{}],\"variants\":[{}],{}}}",
                        esc(&self.path(did)),
                        esc(&format!("{:?}", tcx.def_kind(did))),
                        esc(&format!("{:?}", tcx.visibility(did))),
                        ev.is_reachable(id),
                        fs,
                        vs,
                        self.span_json(tcx.def_span(did))
                    ));
                }
                DefKind::Impl { .. } => {
                    let st = tcx.type_of(did).instantiate_identity().skip_norm_wip();
                    let (tr, neg) = match tcx.impl_opt_trait_ref(did) {
                        Some(t) => {
                            let t = t.instantiate_identity().skip_norm_wip();
                            let pol = format!("{:?}", tcx.impl_polarity(did));
                            (Some(self.path(t.def_id)), pol)
                        }
                        None => (None, String::new()),
                    };
                    let (adt, _) = self.ty_adt(st);
                    impls.push(format!(
                        "{{\"self_ty\":{},\"self_adt\":{},\"trait\":{},\"polarity\":{},{}}}",
                        esc(&st.to_string()),
                        opt_str(adt.map(|a| self.path(a))),
                        opt_str(tr),
                        esc(&neg),
                        self.span_json(tcx.def_span(did))
                    ));
                }
                DefKind::Static { mutability, .. } => {
                    let sty = tcx.type_of(did).instantiate_identity().skip_norm_wip();
                    let env = TypingEnv::post_analysis(tcx, did);
                    let freeze = sty.is_freeze(tcx, env);
                    statics.push(format!(
                        "{{\"path\":{},\"mut\":{},\"ty\":{},\"freeze\":{},\"macro_generated\":{},{}}}",
                        esc(&self.path(did)),
                        mutability.is_mut(),
                        esc(&sty.to_string()),
                        freeze,
                        tcx.def_span(did).from_expansion(),
                        self.span_json(tcx.def_span(did))
                    ));
                }
                DefKind::Trait => {
                    traits.push(format!(
                        "{{\"path\":{},\"vis\":{},\"reachable\":{}}}",
                        esc(&self.path(did)),
                        esc(&format!("{:?}", tcx.visibility(did))),
                        ev.is_reachable(id)
                    ));
                }
                _ => {}
            }
        }
        format!(
            "\"adts\":[{}],\"impls\":[{}],\"statics\":[{}],\"traits\":[{}]",
            adts.join(","),
            impls.join(","),
            statics.join(","),
            traits.join(",")
        )
    }
}

impl rustc_driver::Callbacks for Cb {
    fn after_analysis<'tcx>(&mut self, _c: &rustc_interface::interface::Compiler, tcx: TyCtxt<'tcx>) -> Compilation {
        let want = std::env::var("FACTGEN_CRATE").unwrap_or_else(|_| "cactusref".to_string());
        let name = tcx.crate_name(LOCAL_CRATE).to_string();
        if name != want {
            return Compilation::Continue;
        }
        let out = match std::env::var("FACTGEN_OUT") {
            Ok(o) => o,
            Err(_) => return Compilation::Continue,
        };
        let cx = Cx { tcx };
        let mut fns = Vec::new();
        let mut consts: Vec<String> = Vec::new();
        let mut keys: Vec<_> = tcx.mir_keys(()).iter().copied().collect();
        keys.sort_by_key(|k| tcx.def_path_str(k.to_def_id()));
        for ldid in keys {
            let did = ldid.to_def_id();
            let kind = tcx.def_kind(did);
            if matches!(kind, DefKind::InlineConst | DefKind::AnonConst | DefKind::Const { .. } | DefKind::AssocConst { .. }) {
                // bodies of constants (e.g. `const { offset_of!(..) }`), evaluated symbolically by the rules
                let r = std::panic::catch_unwind(std::panic::AssertUnwindSafe(|| {
                    let body = tcx.mir_for_ctfe(did);
                    cx.body_json(did, body)
                }));
                if let Ok(j) = r {
                    consts.push(j);
                }
                continue;
            }
            if !matches!(kind, DefKind::Fn | DefKind::AssocFn | DefKind::Closure) {
                continue;
            }
            let body = tcx.optimized_mir(did);
            let mut j = cx.body_json(did, body);
            // promoted constants of this body (tiny MIR bodies computing the constant)
            let proms = tcx.promoted_mir(did);
            if !proms.is_empty() {
                let mut pj = Vec::new();
                for pb in proms.iter() {
                    pj.push(cx.body_json(did, pb));
                }
                j.pop(); // strip trailing '}'
                j.push_str(&format!(",\"promoted\":[{}]}}", pj.join(",")));
            }
            fns.push(j);
        }
        let sess = tcx.sess;
        let cfgs: Vec<String> = sess
            .config
            .iter()
            .map(|(k, v)| match v {
                Some(v) => format!("{}={}", k, v),
                None => k.to_string(),
            })
            .filter(|s| s.starts_with("feature") || s.starts_with("debug_assertions") || s.starts_with("overflow_checks") || s.starts_with("test") || s.starts_with("cactusref"))
            .collect();
        let mut doc = String::new();
        let _ = write!(
            doc,
            "{{\"crate\":{},\"crate_type_test\":{},\"cfg\":[{}],\"debug_assertions\":{},\"overflow_checks\":{},{},\"consts\":[{}],\"fns\":[{}]}}\n",
            esc(&name),
            sess.is_test_crate(),
            cfgs.iter().map(|c| esc(c)).collect::<Vec<_>>().join(","),
            sess.opts.debug_assertions,
            sess.overflow_checks(),
            cx.items_json(),
            consts.join(",\n"),
            fns.join(",\n")
        );
        std::fs::write(&out, doc).expect("factgen: cannot write fact file");
        Compilation::Continue
    }
}

fn main() {
    // RUSTC_WORKSPACE_WRAPPER invocation: argv = [factgen, /path/to/rustc, args...]
    let args: Vec<String> = std::env::args().skip(1).collect();
    let mut cb = Cb;
    rustc_driver::run_compiler(&args, &mut cb);
}
