#!/usr/bin/env python3
"""Developer tool: after tools_matrix.py, write the list of checks that report each seeded change into its meta.json."""
import json, os
m = json.load(open("/tmp/matrix.json"))
for r in m:
    if r["id"].startswith("seeded/"):
        p = "/verif/" + r["id"] + "/meta.json"
        meta = json.load(open(p))
        meta["detected_for"] = r["checks"]
        meta["rules_reporting"] = r["rules"]
        json.dump(meta, open(p, "w"), indent=1)
        print(r["id"], r["checks"], "(own property %s %s)" % (meta.get("property"), "reported" if meta.get("property") in r["checks"] else "NOT reported"))
