import sys; sys.path.insert(0,'/verif/rules')
from harness import Program
from rules_ts import Teardown, Borrows, handle_boxes
P=Program(sys.argv[1] if len(sys.argv)>1 else '/tmp/w/facts.json')
drop=P.rc_drop()
tot=0
for fn in P.entries():
    kind='rc_drop' if fn is drop else ('weak_drop' if fn is P.weak_drop() else 'api')
    td=Teardown(kind); br=Borrows()
    e=P.run(fn,[td,br])
    tot+=e.stats['states']
    if e.violations or td.sites['moveout'] or td.sites['free']:
        print(fn.path,'states',e.stats['states'], {k:len(v) for k,v in td.sites.items()}, 'guards',len(br.guard_sites))
    for v in e.violations.values():
        print('   VIOL',v['rule'],v['key'],'|',v['msg'],'|',v['where']['fn'].split('::')[-1],v['where']['line'])
        print('        path',' > '.join(v['path'][-12:]))
print('total states',tot)
