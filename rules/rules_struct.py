"""Structural rules over inlined control-flow graphs and item facts:
ITER-1 (hash-ordered loops run to exhaustion; search closures are pure),
ITER-4 (addresses are never ordered), ITER-5 (no group-sized work nested in group-sized loops),
CG-1 (no recursion in the crate), EFF-4 (nothing outside the crate can write counters, tables or
handle identity; no Send/Sync override; no global mutable state)."""
from expr import show, mentions, is_const
from rules_trace import iter_source, closure_path

ORDER_OPS = ("Lt", "Le", "Gt", "Ge")
SEARCH_ADAPTORS = ("any", "all", "find", "position", "find_map", "take_while", "skip_while", "rposition", "min_by_key", "max_by_key", "min_by", "max_by")
ORDER_CALLS = ("core::cmp::Ord::cmp", "core::cmp::Ord::min", "core::cmp::Ord::max", "core::cmp::Ord::clamp", "core::cmp::PartialOrd::partial_cmp",
               "core::cmp::PartialOrd::lt", "core::cmp::PartialOrd::le", "core::cmp::PartialOrd::gt", "core::cmp::PartialOrd::ge")
PTRISH_ADTS = ("core::ptr::NonNull", "cactusref::link::Link", "cactusref::rc::Rc", "cactusref::rc::Weak")


class V:
    """Collector with the same shape as Engine.violate/obl for rules that need no interpreter."""

    def __init__(self):
        self.violations = {}
        self.obligations = set()

    def obl(self, rule, what, where):
        self.obligations.add((rule, what, where))

    def violate(self, rule, key, msg, where, entry=None):
        k = (rule, key)
        if k not in self.violations:
            self.violations[k] = {"rule": rule, "key": key, "msg": msg, "where": where, "entry": entry, "path": []}


def where_of(g, b):
    p = g.prov[b] if hasattr(g, "prov") else (g.path, b, ())
    t = g.blocks[b]["term"]
    return {"fn": p[0], "bb": p[1], "via": list(p[2]), "file": t.get("file"), "line": t.get("line")}


def can_return(g):
    """Blocks from which a `return` is reachable over normal edges."""
    ok = set(b for b in range(len(g.blocks)) if g.blocks[b]["term"]["k"] == "return")
    preds = g.preds(unwind=False)
    st = list(ok)
    while st:
        x = st.pop()
        for _, p in preds[x]:
            if p not in ok:
                ok.add(p)
                st.append(p)
    return ok


def returns_without(g, start, avoid):
    """Is a `return` reachable from block `start` over normal edges without passing block `avoid`?"""
    seen = set()
    st = [start]
    while st:
        x = st.pop()
        if x in seen or x == avoid:
            continue
        seen.add(x)
        if g.blocks[x]["term"]["k"] == "return":
            return True
        st.extend(g.succ_blocks(x, False))
    return False


def loop_drivers(eng):
    """Map loop header -> (kind, block of the driving call, description) for loops driven by
    Iterator::next / Vec::pop, using the iterator expressions the interpreter evaluated."""
    g = eng.fn
    loops = g.loops(unwind=False)
    out = {}
    leaves = {}
    eng._driver_leaves = leaves
    # pipelines expanded by the inliner: the block that used to call `next` on the whole pipeline stands for that call;
    # the `next` calls synthesised for the stages underneath are not loop drivers of their own
    virtual = {}
    for vb, blk in enumerate(g.blocks):
        vt = blk["term"]
        if vt.get("lazy") and not vt.get("lazy_inner"):
            leaf = vt["lazy"]["hdr"]
            for _ in range(8):
                lt = g.blocks[leaf]["term"]
                if lt.get("lazy"):
                    leaf = lt["lazy"]["hdr"]
                else:
                    break
            virtual[leaf] = vb
    for (kind, b, si), ev in eng.event_index.items():
        drv = None
        if kind == "iter" and ev.op == "next" and g.blocks[b]["term"].get("lazy_inner") and b not in virtual:
            continue
        leaf = b
        if kind == "iter" and ev.op == "next" and b in virtual:
            b = virtual[b]
        if kind == "iter" and ev.op == "next":
            src = iter_source(ev.recv)
            rv_ = ev.recv[1] if isinstance(ev.recv, tuple) and ev.recv[0] == "ref" else ev.recv
            if src is None and isinstance(rv_, tuple) and rv_[0] == "call" and rv_[2].startswith("alloc::vec::Vec::<T") and rv_[2].endswith("::drain"):
                drv = ("group", b, "worklist %s" % show(rv_[3][0])[:60])      # `v.drain(..k).next()`: elements taken off a vector
            elif src is None:
                drv = ("other", b, "iterator")
            elif src[0] == "map":
                drv = ("group", b, "hash container %s" % show(src[1])[:60])
            elif src[0] == "table":
                drv = ("table", b, "link table of %s" % show(src[1])[:60])
            elif src[0] == "range":
                drv = ("range", b, "counting loop")
        elif kind == "vec" and ev.op == "pop":
            drv = ("group", b, "worklist %s" % show(ev.recv)[:60])
        if drv is None:
            continue
        best = None
        for hdr, body in loops.items():
            if b in body and (best is None or len(body) < len(loops[best])):
                best = hdr
        if best is not None and best not in out:
            out[best] = drv
            leaves[best] = leaf
    # a loop with no other driver that takes its elements off a vector one by one some other way (`v.remove(0)`,
    # `v.drain(..1).next()`, `v.swap_remove(i)`): still a loop over that worklist
    for (kind, b, si), ev in eng.event_index.items():
        if kind == "vec" and ev.op in ("remove", "swap_remove", "drain"):
            best = None
            for hdr, body in loops.items():
                if b in body and (best is None or len(body) < len(loops[best])):
                    best = hdr
            if best is not None and best not in out:
                out[best] = ("group", b, "worklist %s" % show(ev.recv)[:60])
                leaves[best] = b
    return loops, out


def iter1(eng, out):
    """Loops over hash-ordered collections leave only through exhaustion."""
    g = eng.fn
    loops, drivers = loop_drivers(eng)
    ret_ok = can_return(g)
    for hdr, (kind, nb, desc) in drivers.items():
        if kind not in ("group", "table"):
            continue
        body = loops[hdr]
        out.obl("ITER-1", "loop:%s" % kind, (eng.name, nb))
        # a loop that is not nested in another loop and whose driving call had returned None in every state that reaches
        # the function's return was left through exhaustion only (this also covers drivers wrapped in helper functions
        # or iterator types of the crate, whose own exits are not the loop's exits)
        nested = any(h2 != hdr and hdr in b2 and body < b2 for h2, b2 in loops.items())
        leaf_site = getattr(eng, "_driver_leaves", {}).get(hdr, nb)
        exhausted_ok = bool(not nested and eng.return_states and eng.drv_at_return.get(leaf_site) and eng.drv_at_return[leaf_site] <= {"0"})
        dterm = g.blocks[nb]["term"]
        is_pop_driver = dterm["k"] == "call" and dterm.get("callee") and dterm["callee"]["def"].endswith(("::pop", "::pop_front", "::pop_back"))
        # user code inside a hash-ordered loop: if it panics, the elements processed so far are an
        # order-dependent subset (worklists / vectors drained with pop are exempt: their owner's drop
        # glue finishes the job in any order)
        if (g.blocks[nb]["term"]["k"] == "call" and (g.blocks[nb]["term"]["callee"] or {}).get("def") == "core::iter::Iterator::next") or g.blocks[nb]["term"].get("lazy"):
            for (ek, eb, esi), ev in eng.event_index.items():
                if ek in ("user", "handle_drop", "indirect") and eb in body and not g.blocks[eb]["cleanup"]:
                    out.violate("ITER-1", "user-code-in-hash-ordered-loop", "user code (%s) runs inside a loop over a %s; if it panics the loop stops after an order-dependent subset of the elements" % (
                        ev.get("ty") or ev.get("method") or ek, desc), where_of(g, eb), entry=eng.name)
        # the switch on the driving call's result
        cur = g.blocks[nb]["term"]["lazy"]["target"] if g.blocks[nb]["term"].get("lazy") else g.blocks[nb]["term"].get("target")
        sw = None
        hops = 0
        while cur is not None and hops < 6:
            t = g.blocks[cur]["term"]
            if t["k"] == "switch":
                sw = cur
                break
            if t["k"] == "goto":
                cur = t["target"]
                hops += 1
                continue
            break
        none_targets = set()
        if sw is not None:
            t = g.blocks[sw]["term"]
            for v, tb in t["targets"]:
                if v == "0":
                    none_targets.add(tb)
            if not none_targets and [v for v, _ in t["targets"]] == ["1"]:
                none_targets.add(t["otherwise"])
        # a loop whose body has no effect at all is a pure search: leaving it early is order-independent
        EFFECTS = ("set", "tblwrite", "moveout", "free", "user", "handle_drop", "indirect", "vec", "alloc", "store", "handle_new", "forget", "fill", "extcall")
        effectful = any(ek in EFFECTS and eb in body for (ek, eb, esi) in eng.event_index)
        for u in body:
            for ekind, v in g.succs(u, unwind=False):
                if v in body or v not in ret_ok:
                    continue
                if u == sw and v in none_targets:
                    continue
                if not effectful:
                    out.obl("ITER-1", "pure-search-exit", (eng.name, u))
                    continue
                if exhausted_ok:
                    out.obl("ITER-1", "exhausted-at-return", (eng.name, nb))
                    continue
                if is_pop_driver and (not returns_without(g, v, nb) or (eng.return_states and eng.drv_at_return.get(nb, set()) <= {"0"})):
                    # a helper that pops until it finds an unvisited node hands it to its caller's loop, which pops again:
                    # the worklist is only ever left for good through `None`
                    out.obl("ITER-1", "worklist-resumed", (eng.name, u))
                    continue
                out.violate("ITER-1", "early-exit:%s" % kind, "a loop over a %s can stop before visiting every element (exit at %s:%s); which elements are processed then depends on hash/table order" % (
                    desc, g.blocks[u]["term"].get("file"), g.blocks[u]["term"].get("line")), where_of(g, u), entry=eng.name)


def search_closures(eng, closures, out):
    g = eng.fn
    for (kind, b, si), ev in eng.event_index.items():
        if kind == "iter" and ev.op in SEARCH_ADAPTORS and len(ev.args) >= 2:
            cl = closures.run(ev.args[1], params={2: ("param", 2)})
            out.obl("ITER-1", "search-closure:%s" % ev.op, (eng.name, b))
            if cl is not None and cl["effects"]:
                out.violate("ITER-1", "search-closure-has-effects:%s" % ev.op, "the closure given to `%s` has side effects (%s); how many elements it runs on depends on hash/table order" % (ev.op, cl["effects"][0].kind), where_of(g, b), entry=eng.name)


ORDER_SENSITIVE = ("take", "skip", "take_while", "skip_while", "map_while", "step_by", "nth", "nth_back", "last", "rev", "enumerate", "zip", "scan",
                   "position", "rposition", "min_by", "max_by", "min_by_key", "max_by_key", "next_back", "advance_by", "array_chunks", "is_sorted", "cmp", "partial_cmp", "eq", "lt", "le", "gt", "ge")


def hash_rooted(it):
    """Is the iterator expression `it` (adaptors looked through) produced by a hashbrown container?"""
    from rules_trace import iter_base
    e = iter_base(it)
    if isinstance(e, tuple) and e[0] == "call" and e[2] == "core::iter::IntoIterator::into_iter" and e[3]:
        a = e[3][0]
        e = a[1] if a[0] == "ref" else a
    return isinstance(e, tuple) and e[0] == "call" and e[2].startswith("hashbrown::")


def iter3(eng, out):
    """No adaptor or consumer whose result depends on the order of elements is applied to a hash-ordered iterator."""
    g = eng.fn
    for (kind, b, si), ev in eng.event_index.items():
        if kind != "iter" or ev.get("recv") is None or not hash_rooted(ev.recv):
            continue
        out.obl("ITER-3", "adaptor:%s" % ev.op, (eng.name, b))
        if ev.op == "fold" and len(ev.get("args") or ()) == 3 and getattr(eng, "program", None) is not None:
            # folding a hash-ordered iterator is order-independent only if the accumulator is combined with the elements by
            # one commutative, associative operation
            from rules_trace import ClosureCache, acc_families, families_commute
            cc = eng.program.__dict__.setdefault("_iter3_closures", ClosureCache(eng.program))
            acc = ("param", 2)
            cl = cc.run(ev.args[2], params={2: acc, 3: ("param", 3)})
            if cl is not None:
                rets = []
                for r in cl["returns"]:
                    if r[0] == "agg" and r[1] in ("adt", "tuple"):
                        # a struct / tuple of accumulators: each field may depend on its own previous value only
                        for fn_, e in r[5]:
                            own = ("accfield", fn_)
                            from expr import children
                            def subst(z):
                                if isinstance(z, tuple) and z and z[0] == "field" and z[1] == acc and z[2] == fn_:
                                    return own
                                if isinstance(z, tuple):
                                    return tuple(subst(c) if isinstance(c, tuple) else c for c in z)
                                return z
                            e2 = subst(e)
                            rets.append((e2, own) if not mentions(e2, lambda y: y == acc) else (("unk", "cross-field"), own))
                    else:
                        rets.append((r, acc))
                for r, a_ in rets:
                    fams = acc_families(r, a_) if r != ("unk", "cross-field") else frozenset({"other:another field of the accumulator"})
                    if fams is None:
                        continue      # this path does not carry the accumulator on (a constant result)
                    if fams == "multi" or not families_commute(fams):
                        out.violate("ITER-3", "order-sensitive-accumulation", "`fold` over a hash-ordered container combines its accumulator with the elements by %s: the result depends on the order in which the container hands its entries out" % (
                            "several uses of the accumulator" if fams == "multi" else " then ".join(sorted(f.replace("!", " (clamping)").replace("other:", "") for f in fams))), where_of(g, b), entry=eng.name)
                        break
        if ev.op in ORDER_SENSITIVE:
            out.violate("ITER-3", "order-sensitive-adaptor:%s" % ev.op, "`%s` is applied to an iterator over a hash-ordered container: which elements it keeps, skips or pairs up depends on the table order (addresses and insertion history), and so does everything done with them" % ev.op,
                        where_of(g, b), entry=eng.name)


PLUS = ("Add", "AddUnchecked", "AddWithOverflow")
MINUS = ("Sub", "SubUnchecked", "SubWithOverflow")
FAMILY_OF_BIN = {**{o: "plus" for o in PLUS}, **{o: "minus" for o in MINUS}, "BitOr": "or", "BitAnd": "and", "BitXor": "xor",
                 "Mul": "mul", "MulUnchecked": "mul", "MulWithOverflow": "mul"}
FAMILY_OF_CALL = {"wrapping_add": "plus", "checked_add": "plus", "saturating_add": "plus!", "wrapping_sub": "minus", "checked_sub": "minus", "saturating_sub": "minus!",
                  "max": "max", "min": "min", "wrapping_mul": "mul", "checked_mul": "mul", "saturating_mul": "mul!"}


def iter3_accumulators(eng, out):
    """A local accumulator carried around a loop over a hash-ordered container must be combined with the elements by one
    commutative, associative operation (all additions, all subtractions, or / and / xor, max, min, products; plain + and -
    may mix).  Mixing a clamping operation with another one -- `(acc + x).saturating_sub(y)` -- makes the result depend
    on the order in which the table hands its entries out."""
    g = eng.fn
    loops, drivers = loop_drivers(eng)
    for h, (kind, nb, desc) in drivers.items():
        if kind not in ("group", "table") or not (desc.startswith("hash container") or desc.startswith("link table")):
            continue
        body = loops[h]
        defs = {}
        for b in body:
            blk = g.blocks[b]
            if blk["cleanup"]:
                continue
            for st in blk["stmts"]:
                if st["k"] == "assign" and not st["dst"]["p"]:
                    defs.setdefault(st["dst"]["l"], []).append(("rv", st["rv"], b))
            t = blk["term"]
            if t["k"] == "call" and t.get("dst") is not None and not t["dst"]["p"] and t.get("callee"):
                defs.setdefault(t["dst"]["l"], []).append(("call", t, b))
        outside = set()
        for b, blk in enumerate(g.blocks):
            if b in body:
                continue
            for st in blk["stmts"]:
                if st["k"] == "assign" and not st["dst"]["p"]:
                    outside.add(st["dst"]["l"])
        for a in sorted(defs):
            if a not in outside or (g.locals[a].get("ty") or {}).get("k") not in ("int", "bool"):
                continue
            out.obl("ITER-3", "accumulator", (eng.name, nb, a))
            # locals computed from the value `a` had at the top of the iteration, with the operations on the way
            taint = {a: frozenset()}
            changed = True
            rounds = 0
            feeds_back = None
            while changed and rounds < 12:
                changed = False
                rounds += 1
                for l, ds in defs.items():
                    for kind_, d, b in ds:
                        fams = None
                        if kind_ == "rv":
                            k = d.get("k")
                            if k in ("use", "cast") and d["op"].get("k") in ("copy", "move") and d["op"]["pl"]["l"] in taint:
                                fams = taint[d["op"]["pl"]["l"]]
                            elif k == "bin":
                                la = d["a"]["pl"]["l"] if d["a"].get("k") in ("copy", "move") else None
                                lb = d["b"]["pl"]["l"] if d["b"].get("k") in ("copy", "move") else None
                                src = la if la in taint else (lb if lb in taint else None)
                                if src is not None:
                                    fam = FAMILY_OF_BIN.get(d["op"])
                                    if fam is None:
                                        if d["op"] in ("Eq", "Ne", "Lt", "Le", "Gt", "Ge"):
                                            continue      # a test on the accumulator, not a new value for it
                                        fam = "other:%s" % d["op"]
                                    elif fam == "minus" and src != la:
                                        fam = "other:reversed-subtraction"
                                    fams = taint[src] | {fam}
                        else:
                            srcs = [x["pl"]["l"] for x in d.get("args") or [] if x.get("k") in ("copy", "move") and not x["pl"]["p"] and x["pl"]["l"] in taint]
                            if srcs:
                                m = d["callee"]["def"].rsplit("::", 1)[-1]
                                fam = FAMILY_OF_CALL.get(m) if d["callee"]["def"].startswith(("core::num::", "core::cmp::")) else None
                                if fam is None:
                                    fam = "other:%s" % m
                                fams = taint[srcs[0]] | {fam}
                        if fams is None:
                            continue
                        if l == a:
                            if feeds_back is None or not fams <= feeds_back:
                                feeds_back = (feeds_back or frozenset()) | fams
                                changed = True
                        elif l not in taint or not fams <= taint[l]:
                            taint[l] = taint.get(l, frozenset()) | fams
                            changed = True
            if not feeds_back:
                continue
            fams = set(feeds_back)
            plain = {f.rstrip("!") for f in fams}
            clamped = any(f.endswith("!") for f in fams)
            ok = len(plain) == 1 or (plain <= {"plus", "minus"} and not clamped)
            if any(f.startswith("other:") for f in fams):
                ok = False
            if not ok:
                out.violate("ITER-3", "order-sensitive-accumulation", "a value carried around the loop over %s is combined with the elements by %s: the result depends on the order in which the container hands its entries out" % (
                    desc, " then ".join(sorted(f.replace("!", " (clamping)").replace("other:", "") for f in fams))), where_of(g, nb), entry=eng.name)


def key1(program, out):
    """Link's PartialEq compares the pointer and the kind of both operands; its Hash reads no field that
    PartialEq ignores (equal keys hash equally); both are free of side effects.  Link tables and the trace's
    map are keyed by Link: merged or split records would make counts depend on hash collisions."""
    from body import BodyInfo
    from rules_trace import _places_rv, LINK
    facts = program.facts
    reads = {}
    for tr, name in (("core::cmp::PartialEq", "eq"), ("core::hash::Hash", "hash")):
        fns = program.trait_impl_method(tr, LINK, name)
        if not fns:
            raise KeyError("vocabulary: impl %s for Link not found" % tr)
        f = fns[0]
        g = program.inlined(f)
        bi = BodyInfo(g)
        rd = set()

        def note(pl):
            try:
                e = bi.place(pl, {})
            except Exception:
                return

            def visit(x):
                if isinstance(x, tuple) and x and x[0] == "field" and len(x) > 3 and x[3] == LINK:
                    base = x[1]
                    par = None
                    if mentions(base, lambda y: y == ("param", 1)):
                        par = 1
                    elif mentions(base, lambda y: y == ("param", 2)):
                        par = 2
                    if par is not None:
                        rd.add((par, x[2]))
                return False
            mentions(e, visit)
        for blk in g.blocks:
            for st_ in blk["stmts"]:
                if st_["k"] == "assign":
                    for pl in _places_rv(st_["rv"]):
                        note(pl)
            t = blk["term"]
            if t["k"] == "call":
                for a in t["args"]:
                    if a.get("k") in ("copy", "move"):
                        note(a["pl"])
            elif t["k"] == "switch" and t["discr"].get("k") in ("copy", "move"):
                note(t["discr"]["pl"])
        reads[name] = rd
        w = {"fn": f.path, "bb": 0, "via": [], "file": f.file, "line": f.line}
        out.obl("KEY-1", "impl:%s" % name, ("raw", f.path, 0, f.line))
        fty = {"fndef": f.path, "k": "fndef"}
        if program.inliner._effectful(fty):
            out.violate("KEY-1", "%s-has-effects" % name, "Link's `%s` has side effects; hash-map operations call it an unspecified number of times" % name, w)
        if name == "eq":
            for fld in ("ptr", "kind"):
                for par in (1, 2):
                    if (par, fld) not in rd:
                        out.violate("KEY-1", "eq-ignores:%s" % fld, "Link's PartialEq does not compare `%s` of %s operand: records of different %s collapse into one table entry" % (
                            fld, "its left" if par == 1 else "its right", "objects" if fld == "ptr" else "kinds (Forward / Backward / Loopback)"), w)
                        break
    # eq must tell the three kinds apart, not some coarser classification of them (`kind.is_outgoing()`): evaluate it on
    # two links to one allocation for every pair of kinds
    try:
        from rules_trace import ClosureCache
        from expr import mk_agg, mk_ref, is_const
        kinds = [(v["name"], v["idx"]) for v in facts.adts.get("cactusref::link::Kind", {}).get("variants", [])]
        fe = program.trait_impl_method("core::cmp::PartialEq", LINK, "eq")[0]
        cc = ClosureCache(program)
        P0 = ("param", 9)
        w = {"fn": fe.path, "bb": 0, "via": [], "file": fe.file, "line": fe.line}
        decided = 0
        for (na, ia) in kinds:
            for (nb, ib) in kinds:
                la = mk_agg("adt", LINK, "Link", 0, [("ptr", P0), ("kind", mk_agg("adt", "cactusref::link::Kind", na, ia, []))])
                lb = mk_agg("adt", LINK, "Link", 0, [("ptr", P0), ("kind", mk_agg("adt", "cactusref::link::Kind", nb, ib, []))])
                r = cc.run(("fn", fe.path), params={2: mk_ref(la), 3: mk_ref(lb)})
                rets = []
                for x in (r["returns"] if r is not None else []):
                    # the pointer comparison of a pointer with itself
                    if x[0] == "call" and x[2].rsplit("::", 1)[-1] in ("eq", "ne") and len(x[3]) == 2 and x[3][0] == x[3][1]:
                        x = ("const", "1" if x[2].endswith("eq") else "0", None)
                    if x[0] == "bin" and x[1] in ("Eq", "Ne") and x[2] == x[3]:
                        x = ("const", "1" if x[1] == "Eq" else "0", None)
                    if x not in rets:
                        rets.append(x)
                if len(rets) != 1 or not is_const(rets[0]):
                    continue
                decided += 1
                says_equal = rets[0][1] == "1"
                if says_equal != (na == nb):
                    out.violate("KEY-1", "eq-merges-kinds:%s-%s" % tuple(sorted((na, nb))) if says_equal else "eq-splits-kind:%s" % na,
                                "Link's PartialEq says that a %s link and a %s link to the same object are %s: %s" % (
                                    na, nb, "equal" if says_equal else "different",
                                    "the two records share one table entry, so one kind's count is booked under the other" if says_equal else "one record can be entered twice and is not found again"), w)
        if kinds and decided == len(kinds) ** 2:
            out.obl("KEY-1", "eq-by-kind-pairs", ("raw", fe.path, 0, fe.line))     # (an eq that cannot be evaluated loses this anchor)
    except KeyError:
        pass
    extra = sorted(fld for (par, fld) in reads.get("hash", ()) if par == 1 and (1, fld) not in reads.get("eq", ()))
    if extra:
        f = program.trait_impl_method("core::hash::Hash", LINK, "hash")[0]
        out.violate("KEY-1", "hash-reads-more-than-eq:%s" % ",".join(extra), "Link's Hash feeds `%s`, which PartialEq does not compare: equal keys can land in different buckets, so a record can be inserted twice or not be found" % ", ".join(extra),
                    {"fn": f.path, "bb": 0, "via": [], "file": f.file, "line": f.line})


def iter5(eng, out):
    """No group-sized loop or linear scan nested in a group-sized loop."""
    g = eng.fn
    loops, drivers = loop_drivers(eng)
    groups = [h for h, d in drivers.items() if d[0] == "group"]
    for h in groups:
        out.obl("ITER-5", "group-loop", (eng.name, drivers[h][1]))
        body = loops[h]
        for h2 in groups:
            if h2 != h and h2 in body and loops[h2] < body:
                out.violate("ITER-5", "nested-group-loops", "a loop over %s is nested inside a loop over %s: work grows quadratically with the group" % (drivers[h2][2], drivers[h][2]), where_of(g, drivers[h2][1]), entry=eng.name)
        for b in body:
            t = g.blocks[b]["term"]
            if t["k"] != "call" or not t["callee"]:
                continue
            d = t["callee"]["def"]
            m = d.rsplit("::", 1)[1]
            if (d.startswith("core::slice::") and m in ("contains", "iter", "binary_search", "starts_with")) or (d.startswith("alloc::vec::Vec::<T") and m in ("contains", "remove", "insert", "retain", "dedup", "drain", "sort", "sort_unstable")):
                # `drain(..)` / `drain(k..)` give up a suffix (cost: what is removed); any other range leaves a tail
                # behind that is moved down, one shift of the whole remainder per call
                shifting_drain = m == "drain" and d.startswith("alloc::vec::Vec::<T") and any(
                    str(ta.get("s", "")).startswith(("core::ops::RangeTo<", "core::ops::Range<", "core::ops::RangeInclusive<", "core::ops::RangeToInclusive<", "core::ops::range::RangeTo<", "core::ops::range::Range<"))
                    for ta in (t["callee"].get("targs") or []))
                if m in ("contains", "remove", "insert", "retain", "dedup", "sort", "sort_unstable", "binary_search") or shifting_drain:
                    out.violate("ITER-5", "linear-scan-in-group-loop:%s" % m, "`%s` (linear in the collection) is called inside a loop over %s" % (d, drivers[h][2]), where_of(g, b), entry=eng.name)
    # a closure handed to library code inside a group loop (the predicate of `extract_if` / `retain` / `filter` ...) that
    # itself walks a sequence it captured (`cycle.iter().any(..)` instead of `cycle.contains_key(..)`): one scan per call
    prog = getattr(eng, "program", None)
    for h in groups:
        for b in loops[h]:
            t = g.blocks[b]["term"]
            if t["k"] != "call" or not t.get("callee"):
                continue
            atys = list(t.get("argtys") or [])
            for a in t.get("args") or []:
                if a.get("k") in ("copy", "move") and not a["pl"]["p"]:
                    atys.append(g.locals[a["pl"]["l"]]["ty"])      # (the inliner records closure values of generic locals)
            seen_c = set()
            for aty in atys:
                cpath = (aty or {}).get("closure")
                if cpath in seen_c:
                    continue
                seen_c.add(cpath)
                if not cpath or prog is None or prog.facts.fn(cpath) is None:
                    continue
                g2 = prog.inlined(prog.facts.fn(cpath))
                from body import BodyInfo
                bi2 = BodyInfo(g2)

                def from_env(l, seen=None):
                    """Does local `l` of the closure derive from its captured environment (local 1)?"""
                    seen = seen if seen is not None else set()
                    if l == 1:
                        return True
                    if l in seen:
                        return False
                    seen.add(l)
                    return any(from_env(x, seen) for x in bi2.deps[l])
                for b2, blk2 in enumerate(g2.blocks):
                    t2 = blk2["term"]
                    if blk2["cleanup"] or t2["k"] != "call" or not t2.get("callee"):
                        continue
                    d2 = t2["callee"]["def"]
                    m2 = d2.rsplit("::", 1)[1]
                    sty = (t2["callee"].get("self_ty") or {})
                    seq_iter = sty.get("adt") in ("core::slice::Iter", "core::slice::IterMut", "alloc::vec::IntoIter", "alloc::collections::vec_deque::Iter") and sty.get("peel", 0) <= 1
                    a0 = (t2.get("args") or [{}])[0]
                    captured = a0.get("k") in ("copy", "move") and from_env(a0["pl"]["l"])      # not a literal array of the closure's own
                    if captured and ((d2.startswith("core::iter::Iterator::") and m2 in SEARCH_ADAPTORS + ("count", "fold", "last", "nth", "sum") and seq_iter) or
                                     (d2.startswith("core::slice::") and m2 in ("contains", "binary_search")) or (d2.startswith("alloc::vec::Vec::<T") and m2 in ("contains",))):
                        out.obl("ITER-5", "scan-in-closure", (eng.name, b))
                        out.violate("ITER-5", "sequence-scan-in-closure-in-group-loop:%s" % m2, "a closure run by `%s` inside a loop over %s walks a sequence it captured (`%s`): one linear scan per call, the work is no longer linear in objects plus adoptions" % (
                            t["callee"]["def"].rsplit("::", 1)[1], drivers[h][2], m2), where_of(g, b), entry=eng.name)
    # inside the trace / teardown loops over the group, a scan of one link table per entry of another
    # link table is quadratic in the tables' sizes
    tables = [h for h, d in drivers.items() if d[0] == "table"]
    for h in tables:
        for h2 in tables:
            if h2 != h and h2 in loops[h] and loops[h2] < loops[h] and any(h in loops[g_] for g_ in groups):
                out.violate("ITER-5", "table-scan-per-table-entry", "a loop over %s runs once per entry of %s inside a loop over the group: the work is no longer linear in objects plus adoptions" % (drivers[h2][2], drivers[h][2]), where_of(g, drivers[h2][1]), entry=eng.name)
    for (kind, b, si), ev in eng.event_index.items():
        if kind == "iter" and ev.op in SEARCH_ADAPTORS + ("count", "sum", "fold", "collect", "last", "nth", "product", "max", "min"):
            src0 = iter_source(ev.recv)
            if src0 is not None and src0[0] == "table":
                for h in tables:
                    if b in loops[h] and any(h in loops[g_] for g_ in groups):
                        out.violate("ITER-5", "table-scan-per-table-entry", "`%s` over the link table of %s runs once per entry of %s inside a loop over the group: the work is no longer linear in objects plus adoptions" % (
                            ev.op, show(src0[1])[:50], drivers[h][2]), where_of(g, b), entry=eng.name)
        if kind == "iter" and ev.op in SEARCH_ADAPTORS + ("count", "sum", "fold", "collect", "last", "nth"):
            src = iter_source(ev.recv)
            if src is not None and src[0] == "map":
                for h in groups:
                    if b in loops[h]:
                        out.violate("ITER-5", "group-scan-in-group-loop:%s" % ev.op, "`%s` over a group-sized collection runs inside a loop over %s" % (ev.op, drivers[h][2]), where_of(g, b), entry=eng.name)


def iter4(program, out):
    """Addresses are only compared for equality / hashed, never ordered."""
    facts = program.facts
    for fn in facts.fns.values():
        def ptrish(ty):
            if ty is None:
                return False
            if ty.get("k") in ("ptr", "ptrmut"):
                return True
            return ty.get("adt") in PTRISH_ADTS and ty.get("peel", 0) <= 1

        # locals holding an integer obtained from a pointer
        from_ptr = set()
        changed = True
        while changed:
            changed = False
            for blk in fn.blocks:
                for s in blk["stmts"]:
                    if s["k"] != "assign" or s["dst"]["p"]:
                        continue
                    rv = s["rv"]
                    dl = s["dst"]["l"]
                    if dl in from_ptr:
                        continue
                    src = None
                    if rv["k"] == "cast" and rv["ck"] in ("PtrToInt", "Transmute") and rv["op"]["k"] in ("copy", "move"):
                        sl = rv["op"]["pl"]["l"]
                        if fn.locals[dl]["ty"].get("k") == "int" and (ptrish(fn.locals[sl]["ty"]) or sl in from_ptr):
                            src = sl
                    elif rv["k"] == "use" and rv["op"]["k"] in ("copy", "move") and not rv["op"]["pl"]["p"] and rv["op"]["pl"]["l"] in from_ptr:
                        src = rv["op"]["pl"]["l"]
                    elif rv["k"] == "bin" and rv["op"] in ("Sub", "Add", "BitAnd", "BitOr", "Shr", "Shl"):
                        for o in (rv["a"], rv["b"]):
                            if o["k"] in ("copy", "move") and not o["pl"]["p"] and o["pl"]["l"] in from_ptr:
                                src = o["pl"]["l"]
                    if src is not None:
                        from_ptr.add(dl)
                        changed = True
        for b, blk in enumerate(fn.blocks):
            for s in blk["stmts"]:
                if s["k"] == "assign" and s["rv"]["k"] == "bin":
                    out.obl("ITER-4", "comparison", ("raw", fn.path, b, s.get("line"))) if s["rv"]["op"] in ORDER_OPS + ("Eq", "Ne") else None
                    if s["rv"]["op"] in ORDER_OPS:
                        for o in (s["rv"]["a"], s["rv"]["b"]):
                            if o["k"] in ("copy", "move"):
                                l = o["pl"]["l"]
                                if (not o["pl"]["p"] and (l in from_ptr or ptrish(fn.locals[l]["ty"]))):
                                    out.violate("ITER-4", "address-ordered", "an address (or an integer derived from one) is compared with `%s` in %s; behaviour would depend on the heap layout" % (s["rv"]["op"], fn.path),
                                                {"fn": fn.path, "bb": b, "via": [], "file": s.get("file"), "line": s.get("line")})
            t = blk["term"]
            if t["k"] == "call" and t["callee"]:
                d = t["callee"]["def"]
                m = d.rsplit("::", 1)[1]
                sty = t["callee"].get("self_ty") or {}
                if d in ORDER_CALLS or m.startswith("sort") or m.startswith("binary_search"):
                    out.obl("ITER-4", "ordering-call", ("raw", fn.path, b, t.get("line")))
                    bad = ptrish(sty) or any(x in sty.get("s", "") for x in ("NonNull<", "link::Link<", "*const ", "*mut "))
                    for a in t["args"]:
                        if a["k"] in ("copy", "move") and not a["pl"]["p"] and a["pl"]["l"] in from_ptr:
                            bad = True
                    if bad and not t.get("macro"):
                        out.violate("ITER-4", "address-ordered-call:%s" % m, "`%s` orders addresses (self type %s) in %s" % (d, sty.get("s"), fn.path),
                                    {"fn": fn.path, "bb": b, "via": [], "file": t.get("file"), "line": t.get("line")})


def cg1(program, out):
    out.obl("CG-1", "functions", ("crate", len(program.facts.fns)))
    for chain, callee in program.inliner.recursive:
        out.violate("CG-1", "recursion:%s" % callee.split("::")[-1], "the crate's call graph has a cycle: %s calls back into %s (stack depth is no longer bounded independently of the object graph)" % (" -> ".join(c.split("::")[-1] for c in chain), callee),
                    {"fn": callee, "bb": 0, "via": list(chain), "file": None, "line": None})


PROTECTED_FIELDS = {
    "cactusref::rc::RcBox": ("strong", "weak", "links", "value"),
    "cactusref::rc::Rc": ("ptr",),
    "cactusref::rc::Weak": ("ptr",),
    "cactusref::link::Links": ("registry",),
    "cactusref::link::Link": ("ptr", "kind"),
}


def eff4(program, out):
    facts = program.facts
    n = 0
    for adt, fields in PROTECTED_FIELDS.items():
        a = facts.adts.get(adt)
        if a is None:
            raise KeyError("vocabulary: type %s not found" % adt)
        have = {f["name"]: f for f in a["fields"]}
        # counters may live in a nested header struct of the crate
        for f in a["fields"]:
            sub_adt = facts.adts.get("cactusref::" + f["ty"].split("<")[0]) if not f["ty"].startswith("cactusref::") else facts.adts.get(f["ty"].split("<")[0])
            if sub_adt is not None and sub_adt.get("kind") == "Struct":
                for g in sub_adt["fields"]:
                    have.setdefault(g["name"], g)
        for fname in fields:
            if fname not in have:
                raise KeyError("vocabulary: field %s.%s not found" % (adt, fname))
            n += 1
            out.obl("EFF-4", "field:%s.%s" % (adt.split("::")[-1], fname), (adt, fname))
            if have[fname]["reachable"]:
                out.violate("EFF-4", "field-exported:%s.%s" % (adt.split("::")[-1], fname), "field %s.%s is visible outside the crate: counters, tables or handle identity can be written by clients, so the crate's accounting is no longer closed" % (adt, fname),
                            {"fn": adt, "bb": 0, "via": [], "file": a.get("file"), "line": a.get("line")})
    for imp in facts.impls:
        if imp.get("trait") in ("core::marker::Send", "core::marker::Sync") and imp.get("self_adt") in ("cactusref::rc::Rc", "cactusref::rc::Weak", "cactusref::rc::RcBox") and "Negative" not in imp.get("polarity", ""):
            out.violate("EFF-4", "send-sync-impl:%s" % imp["self_adt"].split("::")[-1], "%s implements %s: counters are plain Cells, single-threaded use (assumption A4) is no longer enforced" % (imp["self_adt"], imp["trait"]),
                        {"fn": imp["self_ty"], "bb": 0, "via": [], "file": imp.get("file"), "line": imp.get("line")})
    out.obl("EFF-4", "send-sync-impls", ("impls", len(facts.impls)))
    for s in facts.statics:
        if s.get("mut") or not s.get("freeze"):
            if s["path"].startswith("cactusref::") and "__" not in s["path"]:
                out.violate("EFF-4", "global-state:%s" % s["path"].split("::")[-1], "the crate has global mutable state (%s): work could be deferred outside the call that orphans a group" % s["path"],
                            {"fn": s["path"], "bb": 0, "via": [], "file": s.get("file"), "line": s.get("line")})
    out.obl("EFF-4", "statics", ("statics", len(facts.statics)))
