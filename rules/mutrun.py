"""Developer tool: apply each seeded patch to a scratch copy of /repo, regenerate facts, run a rule runner."""
import sys, os, subprocess, tempfile, shutil, json, glob
from concurrent.futures import ThreadPoolExecutor
def one(patch, runner, keep_facts=None):
    td = tempfile.mkdtemp(prefix='mut-', dir='/tmp')
    try:
        subprocess.run(['rsync','-a','--exclude','target','--exclude','.git','--exclude','benchmarks','/repo/',td+'/r/'],check=True)
        r = subprocess.run(['patch','-p1','-s','-i',patch],cwd=td+'/r',capture_output=True,text=True)
        if r.returncode!=0:
            return (patch,'APPLY-FAIL',r.stdout[-300:])
        facts = td+'/facts.json'
        r = subprocess.run(['/verif/factgen.sh',td+'/r',facts,'dev'],capture_output=True,text=True)
        if r.returncode!=0:
            return (patch,'BUILD-FAIL',r.stderr[-600:])
        r = subprocess.run([sys.executable,runner,facts],capture_output=True,text=True,cwd='/verif/rules')
        return (patch,'OK',r.stdout+r.stderr[-2000:])
    finally:
        shutil.rmtree(td,ignore_errors=True)
if __name__=='__main__':
    runner=sys.argv[1]; pats=sys.argv[2:] or sorted(glob.glob('/verif/mutants/*.patch'))
    with ThreadPoolExecutor(8) as ex:
        for (p,status,out) in ex.map(lambda p: one(p,runner), pats):
            viol=[l.strip() for l in out.splitlines() if 'VIOL' in l or 'Traceback' in l or 'Error' in l or 'Inconclusive' in l]
            print(os.path.basename(p),status, '' if status=='OK' else out)
            for v in viol: print('     ',v[:260])
