import sys,time; sys.path.insert(0,'/verif/rules')
from mir import Facts
from inline import Inliner
from interp import Engine
from expr import show
class Tracer:
    def __init__(s): s.log=[]
    def on_event(s, eng, ev, st):
        if ev.kind in ('pure','log'): return
        s.log.append((ev.b, ev.kind, {k:(show(v) if isinstance(v,tuple) else v) for k,v in ev.a.items() if k not in ('args','argtys','line')}, ev.a.get('line')))
def run(pat, factsfile='/tmp/w/facts.json', excl='link'):
    F=Facts(factsfile)
    inl=Inliner(F)
    for fn in F.find(pat):
        if excl in fn.path: continue
        g=inl.inline(fn)
        tr=Tracer()
        e=Engine(g,[tr]).run()
        print('==',fn.path,'states',e.stats['states'])
        seen=set()
        for x in tr.log:
            k=(x[0],x[1])
            if k in seen: continue
            seen.add(k)
            p=g.prov[x[0]]
            print('  bb%d %s:%s L%s %s %s'%(x[0],p[0].split('::')[-1],p[1],x[3],x[1],x[2]))
if __name__=='__main__':
    run(sys.argv[1], *(sys.argv[2:3]))
