"""Symbolic value expressions over inlined MIR, kept in a normal form in which
pointer-preserving operations disappear, so that two expressions denote the
same allocation ("box") iff they are equal.

Expr = nested tuples:
  ('param', i) | ('unk', tag) | ('const', int|None, desc) | ('fn', path)
  ('call', site, def, args)            result of the call terminating block `site`
  ('field', base, name, of) | ('variant', base, name, vi) | ('deref', base) | ('ref', base)
  ('cast', kind, base) | ('bin', op, a, b) | ('un', op, a) | ('discr', base) | ('idx', base)
  ('agg', ak, name, variant, vidx, ((fname, expr), ...))
  ('content', cellplace)               the value guarded by the RefCell at `cellplace`
"""

MAX = str(2 ** 64 - 1)

# callee def path -> how the result relates to the arguments
#   'arg0'   : result is (pointer-)equal to argument 0
#   'deref0' : argument 0 is a reference to a pointer-like value; result is that value
IDENTITY = {
    "core::ptr::NonNull::<T>::as_ptr": "arg0",
    "core::ptr::NonNull::<T>::cast": "arg0",
    "core::ptr::NonNull::<T>::new_unchecked": "arg0",
    "core::ptr::NonNull::<[T]>::as_non_null_ptr": "arg0",
    "core::ptr::NonNull::<T>::as_ref": "deref0",
    "core::ptr::NonNull::<T>::as_mut": "deref0",
    "core::ptr::const_ptr::<impl *const T>::cast": "arg0",
    "core::ptr::const_ptr::<impl *const T>::cast_mut": "arg0",
    "core::ptr::mut_ptr::<impl *mut T>::cast": "arg0",
    "core::ptr::mut_ptr::<impl *mut T>::cast_const": "arg0",
    "core::ptr::mut_ptr::<impl *mut T>::with_metadata_of": "arg0",
    "core::ptr::const_ptr::<impl *const T>::with_metadata_of": "arg0",
    "core::ptr::from_ref": "arg0",
    "core::ptr::from_mut": "arg0",
    "alloc::boxed::Box::<T, A>::leak": "arg0",
    "alloc::boxed::Box::<T, A>::into_raw": "arg0",
    "alloc::boxed::Box::<T>::into_raw": "arg0",
    "alloc::boxed::Box::<T>::from_raw": "arg0",
    "alloc::boxed::Box::<T, A>::from_raw_in": "arg0",
    "core::mem::ManuallyDrop::<T>::new": "arg0",
    "core::mem::MaybeUninit::<T>::as_ptr": "arg0",
    "core::mem::MaybeUninit::<T>::as_mut_ptr": "arg0",
    "core::mem::MaybeUninit::<T>::assume_init_mut": "arg0",
    "core::mem::MaybeUninit::<T>::assume_init_ref": "arg0",
    "core::num::<impl isize>::unsigned_abs": "arg0",
    "core::ptr::NonNull::<T>::as_non_null_ptr": "arg0",
    "core::pin::Pin::<Ptr>::new_unchecked": "arg0",
    "core::convert::identity": "arg0",
    "core::borrow::Borrow::borrow": None,  # not identity in general
}

# Into::into / From::from between reference and NonNull are pointer-preserving
CONVERT = ("core::convert::Into::into", "core::convert::From::from")

SAFE_DISCR_ADTS = (
    "core::option::Option", "core::result::Result", "core::ops::ControlFlow",
)


def const(v, desc=None):
    return ("const", None if v is None else str(v), desc)


POP_NAMES = ("::pop", "::pop_front", "::pop_back")


def is_pop_call(d):
    """Callee path of a worklist removal (Vec::pop, VecDeque::pop_front / pop_back)."""
    return d.endswith(POP_NAMES)


def is_const(e, v=None):
    return e[0] == "const" and e[1] is not None and (v is None or e[1] == str(v))


def mk_ref(e):
    if e[0] == "deref":
        return e[1]
    return ("ref", e)


def mk_deref(e):
    if e[0] == "ref":
        return e[1]
    return ("deref", e)


def mk_field(base, name, of=""):
    # the owner type is only kept for the analysed crate's own types (vocabulary);
    # tuple / std fields are identified by name alone
    if not of.startswith("cactusref::"):
        of = ""
    if base[0] == "agg":
        for fname, fe in base[5]:
            if fname == name:
                return fe
    # checked arithmetic: (a op b).0 is the wrapped result
    if base[0] == "bin" and base[1].endswith("WithOverflow") and name in ("0", 0):
        return mk_bin(base[1][: -len("WithOverflow")], base[2], base[3])
    if base[0] == "bin" and base[1].endswith("WithOverflow") and name in ("1", 1):
        r = mk_bin(base[1][: -len("WithOverflow")], base[2], base[3])
        if r[0] == "const" and r[1] is not None:
            return const(0)
    # payload of an Option whose discriminant is unknown but whose Some-payload is known
    if base[0] == "variant" and base[2] == "Some" and base[1][0] == "optpay" and name in ("0", 0):
        return base[1][2]
    # (0usize.checked_sub(x) as Some).0 can only be 0
    if base[0] == "variant" and base[2] == "Some" and base[1][0] == "call" and base[1][2].endswith("::checked_sub") and len(base[1][3]) == 2 and is_const(base[1][3][0], 0) and name in ("0", 0):
        return const(0)
    # `x?` on an Option whose variant is not known: (branch(x) as Continue).0 is (x as Some).0
    if base[0] == "variant" and base[1][0] == "trybranch" and name in ("0", 0):
        if base[2] == "Continue":
            inner = base[1][1]
            if inner[0] == "optpay":
                return inner[2]
            return mk_field(("variant", inner, "Some", 1), "0", "")
        if base[2] == "Break":
            return mk_agg("adt", "core::option::Option", "None", 0, ())
    if base[0] == "variant" and base[1][0] == "agg":
        agg = base[1]
        if agg[3] == base[2]:
            for fname, fe in agg[5]:
                if fname == name:
                    return fe
    return ("field", base, name, of)


def mk_variant(base, name, vi):
    return ("variant", base, name, vi)


def mk_cast(kind, e, tykind):
    if kind in ("PtrToPtr",) or kind.startswith("Coerce:MutToConstPointer") or kind.startswith("Coerce:Unsize"):
        return e
    if kind == "Transmute" and tykind in ("ref", "refmut", "ptr", "ptrmut"):
        return e
    return ("cast", kind, e)


def mk_discr(e, enum_discr=None):
    if e[0] == "optpay":
        return ("discr", e[1])
    if e[0] == "agg" and e[2] in SAFE_DISCR_ADTS:
        return const(e[4])
    if e[0] == "agg" and enum_discr and e[2] in enum_discr and e[4] in enum_discr[e[2]]:
        return const(enum_discr[e[2]][e[4]])
    return ("discr", e)


def mk_bin(op, a, b):
    if a[0] == "const" and b[0] == "const" and a[1] is not None and b[1] is not None:
        x, y = int(a[1]), int(b[1])
        r = None
        if op == "Eq":
            r = int(x == y)
        elif op == "Ne":
            r = int(x != y)
        elif op == "Lt":
            r = int(x < y)
        elif op == "Le":
            r = int(x <= y)
        elif op == "Gt":
            r = int(x > y)
        elif op == "Ge":
            r = int(x >= y)
        elif op in ("Add", "AddUnchecked") and x + y < 2 ** 64:
            r = x + y
        elif op in ("Sub", "SubUnchecked") and x - y >= 0:
            r = x - y
        elif op == "BitAnd":
            r = x & y
        elif op == "BitOr":
            r = x | y
        if r is not None:
            return const(r)
    return ("bin", op, a, b)


def mk_un(op, a):
    if op == "Not" and a[0] == "const" and a[1] in ("0", "1"):
        return const(1 - int(a[1]))
    if op == "Not" and a[0] == "un" and a[1] == "Not":
        return a[2]
    return ("un", op, a)


def mk_agg(ak, name, variant, vidx, fields):
    return ("agg", ak, name, variant, vidx, tuple(fields))


def mk_call(site, callee, args, argtys=None):
    """Result expression of a call; identity callees collapse to their argument."""
    d = callee["def"] if callee else "<indirect>"
    how = IDENTITY.get(d)
    if how == "arg0" and args:
        return args[0]
    # `IntoIterator::into_iter` of something that already is an iterator is the blanket identity impl
    if d == "core::iter::IntoIterator::into_iter" and args and callee and callee.get("resolved") == "<I as core::iter::IntoIterator>::into_iter":
        st0 = callee.get("self_ty") or {}
        if (st0.get("adt") or "").startswith("cactusref::") or (st0.get("adt") or "").startswith("core::iter::adapters"):
            return args[0]
    if how == "deref0" and args:
        return mk_deref(args[0])
    # `collect` into anything but a sequence (a HashMap / HashSet / BTreeMap ...) merges elements with equal keys: it is
    # not the one-for-one hand-over that collecting into a Vec is, and gets a name of its own
    if d == "core::iter::Iterator::collect" and callee:
        tb = (callee.get("targs") or [{}])[-1]
        if not (tb.get("adt") in ("alloc::vec::Vec", "alloc::collections::VecDeque", "alloc::collections::vec_deque::VecDeque") and tb.get("peel", 0) == 0):
            return ("call", site, "core::iter::Iterator::collect_keyed", tuple(args))
    # NonZero::new(0) is None
    if d.startswith("core::num::NonZero") and d.endswith("::new") and len(args) == 1 and is_const(args[0], 0):
        return mk_agg("adt", "core::option::Option", "None", 0, ())
    # `a == b` / `a != b` on NonNull pointers is pointer identity, like ptr::eq
    if d in ("core::cmp::PartialEq::eq", "core::cmp::PartialEq::ne") and callee and len(args) == 2:
        st0 = callee.get("self_ty") or {}
        if st0.get("adt") == "core::ptr::NonNull" and st0.get("peel", 0) == 0:
            e = ("call", site, "core::ptr::eq", (mk_deref(args[0]), mk_deref(args[1])))
            return e if d.endswith("::eq") else mk_un("Not", e)
    if d in CONVERT and args and callee:
        # reference/pointer -> NonNull conversions keep the address
        targs = callee.get("targs") or []
        st = callee.get("self_ty") or {}
        if any((t.get("adt") == "core::ptr::NonNull" and t.get("peel", 0) == 0) for t in targs) and st.get("k") in ("ref", "refmut", "ptr", "ptrmut", "adt"):
            return args[0]
    if d in ("core::ops::Deref::deref", "core::ops::DerefMut::deref_mut") and args:
        st = (callee.get("self_ty") or {})
        adt = st.get("adt")
        if adt in ("core::cell::Ref", "core::cell::RefMut") and st.get("peel", 0) == 0:
            g = mk_deref(args[0])
            if g[0] == "call" and g[2].startswith("core::cell::RefCell::<T>::") and g[3]:
                return mk_ref(("content", mk_deref(g[3][0])))
            return mk_ref(("content_of_guard", g))
        if adt == "core::mem::ManuallyDrop" and st.get("peel", 0) == 0:
            return args[0]
    if d == "core::ops::Try::branch" and args and args[0][0] == "agg":
        a = args[0]
        if a[2] == "core::option::Option":
            if a[3] == "Some":
                return mk_agg("adt", "core::ops::ControlFlow", "Continue", 0, (("0", a[5][0][1]),))
            return mk_agg("adt", "core::ops::ControlFlow", "Break", 1, (("0", a),))
        if a[2] == "core::result::Result":
            if a[3] == "Ok":
                return mk_agg("adt", "core::ops::ControlFlow", "Continue", 0, (("0", a[5][0][1]),))
            return mk_agg("adt", "core::ops::ControlFlow", "Break", 1, (("0", a),))
    # the value slot of an occupied hash-map entry is one cell, whichever accessor names it
    if d.startswith("hashbrown::hash_map::OccupiedEntry::<") and d.rsplit("::", 1)[1] in ("get", "get_mut", "into_mut") and args:
        e = args[0]
        if e[0] == "ref":
            e = e[1]
        return mk_ref(("entryval", e))
    if d == "core::ops::Try::branch" and args and callee and (callee.get("self_ty") or {}).get("adt") == "core::option::Option" and (callee.get("self_ty") or {}).get("peel", 0) == 0:
        return ("trybranch", args[0])
    if d == "core::ops::FromResidual::from_residual" and callee and (callee.get("self_ty") or {}).get("adt") == "core::option::Option" and (callee.get("self_ty") or {}).get("peel", 0) == 0:
        return mk_agg("adt", "core::option::Option", "None", 0, ())
    if d in ("core::result::Result::<T, E>::unwrap", "core::result::Result::<T, E>::expect", "core::result::Result::<T, E>::unwrap_unchecked") and args and args[0][0] == "agg" and args[0][3] == "Ok":
        return args[0][5][0][1]
    if d in ("core::option::Option::<T>::unwrap", "core::option::Option::<T>::expect", "core::option::Option::<T>::unwrap_unchecked") and args and args[0][0] == "agg" and args[0][3] == "Some":
        return args[0][5][0][1]
    if d in ("core::option::Option::<T>::unwrap_or_default", "core::option::Option::<T>::unwrap_or") and args and args[0][0] == "agg" and args[0][2] == "core::option::Option":
        if args[0][3] == "Some":
            return args[0][5][0][1]
        if d.endswith("unwrap_or") and len(args) > 1:
            return args[1]
        targ = ((callee or {}).get("targs") or [{}])[0]
        if targ.get("k") == "int":
            return const(0)
    if d.startswith("core::num::<impl usize>::checked_") and len(args) == 2 and is_const(args[0]) and is_const(args[1]):
        x, y = int(args[0][1]), int(args[1][1])
        r = None
        if d.endswith("checked_sub"):
            r = x - y if x >= y else None
        elif d.endswith("checked_add"):
            r = x + y if x + y < 2 ** 64 else None
        if d.endswith("checked_sub") or d.endswith("checked_add"):
            if r is None:
                return mk_agg("adt", "core::option::Option", "None", 0, ())
            return mk_agg("adt", "core::option::Option", "Some", 1, (("0", const(r)),))
    if d in ("core::mem::take", "core::mem::replace") and args:
        # the old value of a place that is not part of an RcBox (those are move-out events)
        if box_part(args[0]) is None:
            return mk_deref(args[0])
    if d == "core::cmp::Ord::min" and len(args) == 2 and (is_const(args[0], 0) or is_const(args[1], 0)):
        return const(0)
    if d == "core::ops::FromResidual::from_residual" and callee and (callee.get("self_ty") or {}).get("adt") == "core::result::Result" and (callee.get("self_ty") or {}).get("peel", 0) == 0:
        return mk_agg("adt", "core::result::Result", "Err", 1, (("0", ("unk", "residual")),))
    if d == "core::ops::FromResidual::from_residual" and args and args[0][0] == "agg":
        a = args[0]
        if a[2] == "core::option::Option" and a[3] == "None":
            return a
    return ("call", site, d, tuple(args))


def children(e):
    """Direct sub-expressions of an expression node."""
    k = e[0]
    if k == "call":
        return e[3]
    if k == "agg":
        return tuple(x for _, x in e[5])
    if k in ("param", "unk", "const", "fn"):
        return ()
    if k in ("field", "variant", "deref", "ref", "discr", "idx", "content", "content_of_guard", "repeat", "proj", "stepped", "trybranch", "entryval"):
        return (e[1],)
    if k == "cast":
        return (e[2],)
    if k == "bin":
        return (e[2], e[3])
    if k == "un":
        return (e[2],)
    if k == "optpay":
        return (e[1], e[2])
    return tuple(x for x in e[1:] if isinstance(x, tuple) and x and isinstance(x[0], str))


def mentions(e, pred):
    if pred(e):
        return True
    for c in children(e):
        if mentions(c, pred):
            return True
    return False


def mentions_site(e, site):
    return mentions(e, lambda x: x[0] == "call" and x[1] == site)


def depth(e, lim=60):
    if lim <= 0:
        return 0
    m = 0
    for c in children(e):
        d = depth(c, lim - 1)
        if d > m:
            m = d
    return m + 1


def show(e):
    if not isinstance(e, tuple):
        return str(e)
    k = e[0]
    if k == "param":
        return "p%d" % e[1]
    if k == "unk":
        return "?%s" % (e[1],)
    if k == "const":
        return e[1] if e[1] is not None else "c{%s}" % e[2]
    if k == "fn":
        return "fn:%s" % e[1]
    if k == "call":
        return "%s@%d(%s)" % (e[2].split("::")[-1], e[1], ", ".join(show(a) for a in e[3]))
    if k == "field":
        return "%s.%s" % (show(e[1]), e[2])
    if k == "variant":
        return "(%s as %s)" % (show(e[1]), e[2])
    if k == "deref":
        return "*%s" % show(e[1])
    if k == "ref":
        return "&%s" % show(e[1])
    if k == "cast":
        return "(%s as %s)" % (show(e[2]), e[1])
    if k == "bin":
        return "%s(%s, %s)" % (e[1], show(e[2]), show(e[3]))
    if k == "un":
        return "%s(%s)" % (e[1], show(e[2]))
    if k == "discr":
        return "discr(%s)" % show(e[1])
    if k == "agg":
        return "%s::%s{%s}" % (e[2].split("::")[-1] or e[1], e[3], ", ".join("%s: %s" % (n, show(x)) for n, x in e[5]))
    if k == "content":
        return "content(%s)" % show(e[1])
    if k == "idx":
        return "%s[]" % show(e[1])
    return "%s(%s)" % (k, ", ".join(show(x) for x in e[1:]))


# ----------------------------------------------------------------- patterns
RCBOX = "cactusref::rc::RcBox"
BOX_FIELDS = ("strong", "weak", "links", "value")


def box_part(e):
    """If `e` is (a pointer to) a field of an RcBox, return (boxptr_expr, field).  The counters may sit in a
    nested header struct of the crate (`(*b).header.strong`)."""
    if e[0] == "ref":
        e = e[1]
    if e[0] == "field" and e[3] == RCBOX and e[2] in BOX_FIELDS and e[1][0] == "deref":
        return e[1][1], e[2]
    # the counters may sit deeper: in a header struct of the crate (`(*b).header.strong`) and / or behind a newtype of
    # the crate around the cell (`(*b).strong.0`): the counter is named by the strong / weak field on the way down
    if e[0] == "field" and e[3].startswith("cactusref::"):
        names = []
        x = e
        n = 0
        while x[0] == "field" and x[3].startswith("cactusref::") and n < 4:
            names.append(x[2])
            if x[3] == RCBOX and x[1][0] == "deref":
                hit = [nm for nm in names if nm in ("strong", "weak")]
                if len(hit) == 1 and len(names) > 1:
                    return x[1][1], hit[0]
                return None
            x = x[1]
            n += 1
    return None


def box_ptr(e):
    """If `e` is a pointer to a whole RcBox place, return the pointer expr (identity)."""
    return e


def table_of(e):
    """If `e` is (a pointer to) the registry map / Links struct of a box's table,
    return the box pointer expr."""
    if e[0] == "ref":
        e = e[1]
    if e[0] == "field" and e[2] == "registry":
        e = e[1]
    if e[0] == "deref":
        e = e[1]
        if e[0] == "ref":
            e = e[1]
    if e[0] == "content":
        bp = box_part(e[1])
        if bp and bp[1] == "links":
            return bp[0]
    return None


ALLOC_CALLS = ("Allocator::allocate", "Allocator::allocate_zeroed", "alloc::alloc::alloc", "alloc::alloc::alloc_zeroed", "alloc::alloc::exchange_malloc",
               "alloc::boxed::Box::<T>::new", "alloc::boxed::Box::<T>::new_uninit")


def is_fresh_alloc(box):
    """Is this box the result of an allocation made by the function under analysis (an object under construction)?"""
    return mentions(box, lambda x: x[0] == "call" and (x[2].endswith(ALLOC_CALLS[:2]) or x[2] in ALLOC_CALLS[2:]))
