"""Per-body static information for the abstract interpreter: definition sites,
which locals need path-sensitive ("dynamic") values, liveness of those locals,
and evaluation of MIR operands / rvalues to symbolic expressions.
"""
from expr import (mk_ref, mk_deref, mk_field, mk_variant, mk_cast, mk_discr, mk_bin, mk_un, mk_agg,
                  mk_call, const, depth)



def place_locals(pl):
    yield pl["l"]
    for e in pl["p"]:
        if isinstance(e, dict) and "idx" in e:
            yield e["idx"]


def op_locals(op):
    if op["k"] in ("copy", "move"):
        yield from place_locals(op["pl"])
    elif op["k"] == "fnid":
        yield from op_locals(op["op"])


def rv_locals(rv):
    k = rv["k"]
    if k in ("use", "cast", "repeat"):
        yield from op_locals(rv["op"])
    elif k in ("ref", "addr", "discr", "copyderef", "arr_head", "arr_tail"):
        yield from place_locals(rv["pl"])
    elif k == "bin":
        yield from op_locals(rv["a"])
        yield from op_locals(rv["b"])
    elif k == "un":
        yield from op_locals(rv["a"])
    elif k == "agg":
        for o in rv["ops"]:
            yield from op_locals(o)


class BodyInfo:
    def __init__(self, fn):
        self.fn = fn
        n = len(fn.locals)
        self.defs = [[] for _ in range(n)]      # full definitions (no projection)
        self.partial = [False] * n              # assigned through a non-deref projection
        self.deps = [set() for _ in range(n)]
        for i in range(1, fn.argc + 1):
            self.defs[i].append(("param", i))
        for b, blk in enumerate(fn.blocks):
            for si, s in enumerate(blk["stmts"]):
                if s["k"] == "assign":
                    d = s["dst"]
                    if not d["p"]:
                        self.defs[d["l"]].append(("stmt", b, si))
                        self.deps[d["l"]].update(rv_locals(s["rv"]))
                    elif d["p"][0] != "*":
                        self.partial[d["l"]] = True
                elif s["k"] == "setdiscr":
                    if not (s["dst"]["p"] and s["dst"]["p"][0] == "*"):
                        self.partial[s["dst"]["l"]] = True
            t = blk["term"]
            if t["k"] == "call":
                d = t["dst"]
                if not d["p"]:
                    self.defs[d["l"]].append(("term", b))
                    for a in t["args"]:
                        self.deps[d["l"]].update(op_locals(a))
                elif d["p"][0] != "*":
                    self.partial[d["l"]] = True
        # dynamic locals: not exactly one def, or depending on a dynamic local
        dyn = set(l for l in range(n) if len(self.defs[l]) != 1 or self.partial[l])
        # what `next` hands out is always tracked per path: the rules refine it (adapted elements, filter facts)
        for blk in fn.blocks:
            t = blk["term"]
            if t["k"] == "call" and t.get("recv_local") is not None:
                dyn.add(t["recv_local"])      # a slice iterator advanced in place (interp.Engine.known_slice_next)
            if t["k"] == "call" and t.get("callee") and t["callee"].get("def") == "core::iter::Iterator::next" and not t["dst"]["p"]:
                dyn.add(t["dst"]["l"])
        changed = True
        while changed:
            changed = False
            for l in range(n):
                if l not in dyn and self.deps[l] & dyn:
                    dyn.add(l)
                    changed = True
        self.dyn = dyn
        self._static = {}
        self._live = None

    # ------------------------------------------------------------ liveness
    def live_in(self):
        """Per block: set of dynamic locals live on entry."""
        if self._live is not None:
            return self._live
        fn = self.fn
        nb = len(fn.blocks)
        use = [set() for _ in range(nb)]
        kill = [set() for _ in range(nb)]
        for b, blk in enumerate(fn.blocks):
            u, k = use[b], kill[b]

            def rd(ls):
                for l in ls:
                    if l in self.dyn and l not in k:
                        u.add(l)
            for s in blk["stmts"]:
                if s["k"] == "assign":
                    rd(rv_locals(s["rv"]))
                    d = s["dst"]
                    if d["p"]:
                        rd(place_locals(d))
                    elif d["l"] in self.dyn:
                        k.add(d["l"])
                elif s["k"] == "setdiscr":
                    rd(place_locals(s["dst"]))
            t = blk["term"]
            tk = t["k"]
            if tk == "switch":
                rd(op_locals(t["discr"]))
            elif tk == "drop":
                rd(place_locals(t["pl"]))
            elif tk == "call":
                rd(op_locals(t["fnop"]))
                for a in t["args"]:
                    rd(op_locals(a))
                d = t["dst"]
                if d["p"]:
                    rd(place_locals(d))
                # the dst is defined only on the normal edge; be conservative: do not kill
            elif tk == "assert":
                rd(op_locals(t["cond"]))
            elif tk == "return":
                rd([0])
        live = [set() for _ in range(nb)]
        changed = True
        while changed:
            changed = False
            for b in range(nb - 1, -1, -1):
                out = set()
                for s in fn.succ_blocks(b, True):
                    out |= live[s]
                new = use[b] | (out - kill[b])
                if new != live[b]:
                    live[b] = new
                    changed = True
        self._live = live
        return live

    # ---------------------------------------------------------- evaluation
    def local_value(self, l, val):
        if l in self.dyn:
            v = val.get(l)
            if v is not None:
                return v
            if len(self.defs[l]) == 1 and self.defs[l][0][0] == "param" and not self.partial[l]:
                return ("param", l)
            return ("unk", "l%d" % l)
        if l in self._static:
            return self._static[l]
        self._static[l] = ("unk", "l%d" % l)  # cycle guard
        d = self.defs[l][0]
        if d[0] == "param":
            e = ("param", d[1])
        elif d[0] == "stmt":
            s = self.fn.blocks[d[1]]["stmts"][d[2]]
            e = self.rvalue(s["rv"], {})
        else:
            t = self.fn.blocks[d[1]]["term"]
            e = self.call_value(d[1], t, {})
        if depth(e) > 150:
            e = ("unk", "deep%d" % l)
        self._static[l] = e
        return e

    def place(self, pl, val):
        e = self.local_value(pl["l"], val)
        for p in pl["p"]:
            if p == "*":
                e = mk_deref(e)
            elif "f" in p:
                e = mk_field(e, p["n"], p.get("of", ""))
            elif "dc" in p:
                e = mk_variant(e, p["dc"], p.get("vi", -1))
            elif "idx" in p:
                e = ("idx", e)
            else:
                e = ("proj", e, p.get("x"))
        return e

    def operand(self, op, val):
        k = op["k"]
        if k in ("copy", "move"):
            return self.place(op["pl"], val)
        if k == "fnid":
            # which of the candidate fn items a fn pointer is (inline.Inliner._devirtualise)
            e = self.operand(op["op"], val)
            while e[0] == "cast":
                e = e[2]
            if e[0] == "agg" and e[1] == "closure" and e[2] in op["cands"]:
                return const(op["cands"].index(e[2]))      # a non-capturing closure coerced to a fn pointer
            if e[0] == "fn":
                return const(op["cands"].index(e[1]) if e[1] in op["cands"] else len(op["cands"]))
            return ("unk", "fnid")
        if k == "const":
            if "prom" in op:
                v = promoted_value(self.fn.facts, op["prom"][0], op["prom"][1])
                if v is not None:
                    return v
            if "fn" in op:
                return ("fn", op["fn"]["def"])
            if "int" in op:
                return const(op["int"])
            if op.get("desc") and (op.get("ty") or {}).get("k") in ("array", "slice", "tuple"):
                v = named_const_value(getattr(self.fn, "facts", None), op["desc"])
                if v is not None:
                    return v
            return const(None, op.get("desc"))
        return ("unk", "op")

    def rvalue(self, rv, val):
        k = rv["k"]
        if k == "use":
            return self.operand(rv["op"], val)
        if k in ("ref", "addr"):
            return mk_ref(self.place(rv["pl"], val))
        if k == "copyderef":
            return self.place(rv["pl"], val)
        if k == "cast":
            return mk_cast(rv["ck"], self.operand(rv["op"], val), rv["ty"].get("k"))
        if k == "bin":
            a, b = self.operand(rv["a"], val), self.operand(rv["b"], val)
            r = mk_bin(rv["op"], a, b)
            if r[0] == "bin" and rv["op"] in ("Gt", "Lt", "Ge", "Le") and self._unsigned(rv["a"], rv["b"]):
                # comparisons of an unsigned quantity with zero that have only one possible outcome
                from expr import is_const
                if rv["op"] == "Gt" and is_const(a, 0):
                    return const(0)
                if rv["op"] == "Lt" and is_const(b, 0):
                    return const(0)
                if rv["op"] == "Ge" and is_const(b, 0):
                    return const(1)
                if rv["op"] == "Le" and is_const(a, 0):
                    return const(1)
            return r
        if k == "un":
            a = rv["a"]
            # `!0_usize`: bitwise complement of an integer literal (the bool form `!flag` is handled by mk_un)
            if rv["op"] == "Not" and a.get("k") == "const" and (a.get("ty") or {}).get("k") == "int" and "int" in a and a.get("size"):
                try:
                    return const((~int(a["int"])) & ((1 << (8 * int(a["size"]))) - 1))
                except ValueError:
                    pass
            return mk_un(rv["op"], self.operand(rv["a"], val))
        if k == "discr":
            return mk_discr(self.place(rv["pl"], val), getattr(getattr(self.fn, "facts", None), "enum_discr", None))
        if k == "agg":
            names = rv.get("fields") or []
            ops = [self.operand(o, val) for o in rv["ops"]]
            if rv["ak"] in ("tuple", "closure", "array") or len(names) != len(ops):
                names = [str(i) for i in range(len(ops))]
            return mk_agg(rv["ak"], rv["name"], rv["variant"], rv.get("vidx", 0), list(zip(names, ops)))
        if k in ("arr_head", "arr_tail"):
            # by-value iteration over a literal array (`for x in [a, b]`), see Inliner._expand_array_iter
            a = self.place(rv["pl"], val)
            if a[0] == "agg" and a[1] == "array":
                if k == "arr_head":
                    if a[5]:
                        return mk_agg("adt", "core::option::Option", "Some", 1, [("0", a[5][0][1])])
                    return mk_agg("adt", "core::option::Option", "None", 0, [])
                return mk_agg("array", a[2], a[3], a[4], [(str(i), e) for i, (_n, e) in enumerate(a[5][1:])])
            if k == "arr_head":
                return ("call", rv.get("site", 0), "core::iter::Iterator::next", (mk_ref(a),))
            return ("unk", "arr_tail")
        if k == "repeat":
            return ("repeat", self.operand(rv["op"], val))
        return ("unk", "rv:" + rv.get("desc", "")[:30])

    def _unsigned(self, *ops):
        for o in ops:
            ty = None
            if o.get("k") in ("copy", "move") and not o["pl"]["p"]:
                ty = self.fn.locals[o["pl"]["l"]]["ty"].get("s")
            elif o.get("k") == "const":
                ty = (o.get("ty") or {}).get("s")
            if ty in ("usize", "u8", "u16", "u32", "u64", "u128"):
                return True
        return False

    def call_value(self, b, t, val):
        args = [self.operand(a, val) for a in t["args"]]
        return mk_call(b, t["callee"], args, t.get("argtys"))


_prom_cache = {}


def named_const_value(facts, desc):
    """Value of a named constant of the analysed crate whose body builds an aggregate of constants (`const KINDS: [Kind; 2]`)."""
    import re
    if facts is None:
        return None
    name = re.sub(r"::<[^>]*>", "", desc)
    key = (id(facts), "const", name)
    if key in _prom_cache:
        return _prom_cache[key]
    v = None
    hits = [c for path, c in facts.consts.items() if path == name or path.endswith("::" + name)]
    if len(hits) == 1 and len(hits[0]["blocks"]) == 1 and hits[0]["blocks"][0]["term"]["k"] == "return":
        from mir import Fn
        from expr import mentions
        pf = Fn(dict(hits[0], argc=0), facts)
        bi = BodyInfo(pf)
        if 0 not in bi.dyn:
            v = bi.local_value(0, {})
            if v[0] != "agg" or mentions(v, lambda x: x[0] in ("unk", "param")):
                v = None
    _prom_cache[key] = v
    return v


def promoted_value(facts, fnpath, idx):
    """Value of a promoted constant: evaluate its (straight-line) MIR body symbolically."""
    key = (id(facts), fnpath, idx)
    if key in _prom_cache:
        return _prom_cache[key]
    v = None
    f = facts.fns.get(fnpath)
    if f is not None:
        proms = f.f.get("promoted") or []
        if idx < len(proms):
            from mir import Fn
            pf = Fn(proms[idx], facts)
            bi = BodyInfo(pf)
            if 0 not in bi.dyn and all(b["term"]["k"] in ("return", "goto") for b in pf.blocks):
                v = bi.local_value(0, {})
                from expr import mentions
                if mentions(v, lambda x: x[0] in ("unk", "param")):
                    v = None
    _prom_cache[key] = v
    return v
