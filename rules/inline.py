"""Whole-program MIR inliner.

Builds, for an entry point, one control-flow graph in which every call to a
function of the analysed crate (including trait default methods, resolved
impl methods, and closures / fn items invoked through the Fn* traits when the
callee value is statically known) is replaced by a renamed copy of the
callee's MIR.  All later analyses therefore see *behaviour*, independent of
how the crate factors its helpers.

Each block of the result records its provenance: (function path, original
block index, call chain) for reports.
"""
import copy
from mir import Fn

FN_TRAITS = ("core::ops::FnOnce::call_once", "core::ops::FnMut::call_mut", "core::ops::Fn::call")


class InlineError(Exception):
    pass


def _shift_place(pl, off):
    pl["l"] += off
    for e in pl["p"]:
        if isinstance(e, dict) and "idx" in e:
            e["idx"] += off


def _shift_op(op, off):
    if op["k"] in ("copy", "move"):
        _shift_place(op["pl"], off)


def _shift_rv(rv, off):
    k = rv["k"]
    if k in ("use", "cast", "repeat"):
        _shift_op(rv["op"], off)
    elif k in ("ref", "addr", "discr", "copyderef", "arr_head", "arr_tail"):
        _shift_place(rv["pl"], off)
    elif k == "bin":
        _shift_op(rv["a"], off)
        _shift_op(rv["b"], off)
    elif k == "un":
        _shift_op(rv["a"], off)
    elif k == "agg":
        for o in rv["ops"]:
            _shift_op(o, off)


def _shift_target(t, boff):
    return None if t is None else t + boff


def _shift_block(blk, loff, boff):
    for s in blk["stmts"]:
        if s["k"] == "assign":
            _shift_place(s["dst"], loff)
            _shift_rv(s["rv"], loff)
        elif s["k"] == "setdiscr":
            _shift_place(s["dst"], loff)
    t = blk["term"]
    k = t["k"]
    if k == "goto":
        t["target"] += boff
    elif k == "switch":
        _shift_op(t["discr"], loff)
        t["targets"] = [[v, tb + boff] for v, tb in t["targets"]]
        t["otherwise"] += boff
    elif k == "drop":
        _shift_place(t["pl"], loff)
        t["target"] += boff
        if isinstance(t["unwind"], int):
            t["unwind"] += boff
    elif k == "call":
        _shift_op(t["fnop"], loff)
        for a in t["args"]:
            _shift_op(a, loff)
        _shift_place(t["dst"], loff)
        t["target"] = _shift_target(t["target"], boff)
        if isinstance(t["unwind"], int):
            t["unwind"] += boff
    elif k == "assert":
        _shift_op(t["cond"], loff)
        t["target"] += boff
        if isinstance(t["unwind"], int):
            t["unwind"] += boff


import re
_PROM = re.compile(r"promoted\[(\d+)\]$")


def _tag_op(op, fnpath):
    if isinstance(op, dict) and op.get("k") == "const" and "prom" not in op:
        m = _PROM.search(op.get("desc") or "")
        if m:
            op["prom"] = [fnpath, int(m.group(1))]


def tag_promoted(blocks, fnpath):
    """Mark references to promoted constants with the function whose promoted body defines them."""
    for blk in blocks:
        for s in blk["stmts"]:
            if s["k"] == "assign":
                rv = s["rv"]
                for key in ("op", "a", "b"):
                    if key in rv:
                        _tag_op(rv[key], fnpath)
                for o in rv.get("ops", []):
                    _tag_op(o, fnpath)
        t = blk["term"]
        if t["k"] == "call":
            for a in t["args"]:
                _tag_op(a, fnpath)
        elif t["k"] == "switch":
            _tag_op(t["discr"], fnpath)
        elif t["k"] == "assert":
            _tag_op(t["cond"], fnpath)


class Inliner:
    def __init__(self, facts, keep=()):
        self.facts = facts
        self.keep = set(keep)  # def paths never inlined
        self.recursive = []    # (chain, callee) pairs where recursion was cut
        self.unresolved = []   # local-looking calls we could not resolve
        self.lazy_unexpanded = []  # (entry, block, what): effectful closures run by library iterator code we do not expand
        self.expand_guard_containers = False

    # -------------------------------------------------------- resolution
    def resolve(self, callee, self_subst):
        """Return (Fn, new_self_subst) for a callee json, or (None, None)."""
        facts = self.facts
        if callee is None:
            return None, None
        tr = callee.get("trait")
        st = callee.get("self_ty")
        # <ManuallyDrop<Rc<T>> as Clone>::clone is core's derive: it clones the wrapped handle
        if callee.get("def") == "core::clone::Clone::clone" and st and st.get("adt") == "core::mem::ManuallyDrop" and st.get("peel", 0) == 0:
            inner = st.get("s", "")
            for hty, hadt in (("rc::Rc<", "cactusref::rc::Rc"), ("rc::Weak<", "cactusref::rc::Weak")):
                if inner.startswith("core::mem::ManuallyDrop<" + hty):
                    for f in facts.fns.values():
                        if f.f.get("impl_trait") == "core::clone::Clone" and f.name == "clone" and (f.f.get("impl_self") or {}).get("adt") == hadt:
                            return f, None
        # trait call on a type parameter of a generic function being inlined, instantiated at the call site
        if tr and st is not None and st.get("k") == "param" and self_subst is not None and st.get("s") in (self_subst.get("_tp") or {}):
            conc = self_subst["_tp"][st["s"]]
            name = callee["def"].rsplit("::", 1)[1]
            if conc.get("adt"):
                for f in facts.fns.values():
                    if f.f.get("impl_trait") == tr and f.name == name:
                        isf = f.f.get("impl_self") or {}
                        if isf.get("adt") == conc.get("adt") and isf.get("peel", 0) == conc.get("peel", 0):
                            return f, None
                d = facts.fn(callee["def"])
                if d is not None:
                    return d, dict(conc, _tp=self_subst["_tp"])
            return None, None
        # Self-typed trait call inside a default method being inlined
        if tr and st is not None and st.get("k") == "param" and st.get("s") == "Self" and self_subst is not None:
            name = callee["def"].rsplit("::", 1)[1]
            for f in facts.fns.values():
                if f.f.get("impl_trait") == tr and f.name == name:
                    isf = f.f.get("impl_self") or {}
                    if isf.get("adt") and isf.get("adt") == self_subst.get("adt") and isf.get("peel", 0) == self_subst.get("peel", 0):
                        return f, None
            d = facts.fn(callee["def"])
            if d is not None:
                return d, self_subst
            return None, None
        r = callee.get("resolved")
        if r and callee.get("rk") == "item" and r in facts.fns:
            f = facts.fns[r]
            sub = None
            if f.f.get("trait_default_of"):
                sub = st
            return f, sub
        d = callee.get("def")
        # a trait method call synthesised by an expansion (no resolution from the compiler): look the impl up by self type
        if tr and st is not None and not r and (st.get("adt") or "").startswith(facts.crate + "::"):
            name = d.rsplit("::", 1)[1]
            for f in facts.fns.values():
                if f.f.get("impl_trait") == tr and f.name == name:
                    isf = f.f.get("impl_self") or {}
                    if isf.get("adt") == st.get("adt"):
                        return f, None
        if d in facts.fns and not tr:
            return facts.fns[d], None
        if d in facts.fns and tr:
            # unresolved local trait method (default body), Self = st
            return facts.fns[d], st
        return None, None

    # ----------------------------------------------------------- inlining
    def inline(self, fn):
        self._cur = fn.path
        n_unexp0 = len(self.lazy_unexpanded)
        locals_ = copy.deepcopy(fn.locals)
        blocks = copy.deepcopy(fn.blocks)
        tag_promoted(blocks, fn.path)
        prov = [(fn.path, i, ()) for i in range(len(blocks))]
        work = [(i, (fn.path,), None) for i in range(len(blocks))]
        # worklist of (block index, chain, self_subst)
        deferred = []      # calls through fn pointers, looked at once everything else is in place
        while work or deferred:
            if not work:
                todo, deferred = deferred, []
                for (b, chain, self_subst) in todo:
                    for nb in self._devirtualise(b, locals_, blocks):
                        prov.append((prov[b][0], prov[b][1], prov[b][2]))
                        work.append((nb, chain, self_subst))
                continue
            b, chain, self_subst = work.pop()
            t = blocks[b]["term"]
            if t["k"] == "call" and t.get("callee") is None and not t.get("_devirt") and t["fnop"].get("k") in ("copy", "move") \
                    and (self._op_ty(t["fnop"], locals_) or {}).get("k") == "fnptr":
                t["_devirt"] = True
                deferred.append((b, chain, self_subst))
                continue
            if t["k"] == "drop" and not t.get("glue_only"):
                nb = self._expand_local_drop(b, t, locals_, blocks)
                if nb is not None:
                    prov.append((prov[b][0], prov[b][1], prov[b][2]))
                    work.append((b, chain, self_subst))
                    continue
                newb = self._expand_container_drop(b, t, locals_, blocks)
                if newb:
                    for x in newb:
                        prov.append((prov[b][0], prov[b][1], prov[b][2]))
                    for x in newb:
                        work.append((x, chain, self_subst))
                continue
            if t["k"] != "call":
                continue
            self._propagate_types(locals_, blocks)
            callee = t["callee"]
            self._rework = []
            pf = self.facts.fn(prov[b][0])
            self._in_crate_iter_next = bool(pf is not None and (pf.f.get("impl_trait"), pf.name) in (("core::iter::Iterator", "next"), ("core::iter::DoubleEndedIterator", "next_back")))
            new = self._expand_adaptor(b, t, callee, locals_, blocks)
            if new or self._rework:
                for nb in new or []:
                    prov.append((prov[b][0], prov[b][1], prov[b][2]))
                    work.append((nb, chain, self_subst))
                for rb in self._rework:
                    work.append((rb, chain, self_subst))
                continue
            if self._expand_ctor(b, t, callee, blocks):
                continue
            t["_blk"] = blocks[b]
            t["_blocks"] = blocks
            target_fn, sub, args = self._call_target(t, callee, locals_, self_subst)
            t.pop("_blk", None)
            t.pop("_blocks", None)
            if target_fn is None:
                if t.get("untupled") and not t.get("_requeued"):
                    # a foreign fn item called through Fn* was rewritten into a direct call: look at it again
                    t["_requeued"] = True
                    work.append((b, chain, self_subst))
                    continue
                for nb in self._note_foreign_closure(b, t, callee, locals_, blocks) or []:
                    prov.append((prov[b][0], prov[b][1], prov[b][2]))
                continue
            if target_fn.path in self.keep:
                continue
            if target_fn.path in chain:
                self.recursive.append((chain, target_fn.path))
                continue
            if (target_fn.f.get("impl_trait"), target_fn.name) in (("core::iter::Iterator", "next"), ("core::iter::DoubleEndedIterator", "next_back")) and self._writes_own_fields(target_fn):
                # an iterator type of the crate that is a state machine over its own fields: followed when the iterator
                # is a local of the caller reached through `&mut local` (its field writes become writes of that local's
                # fields, _resolve_local_pointers); checked once the whole body is in place
                self._state_machines = getattr(self, "_state_machines", [])
                self._state_machines.append((self._cur, b, target_fn.path, len(locals_) + 1))
            loff = len(locals_)
            boff = len(blocks)
            new_locals = copy.deepcopy(target_fn.locals)
            if sub and sub.get("_tp"):
                self._subst_types(new_locals, sub["_tp"])
            new_blocks = copy.deepcopy(target_fn.blocks)
            tag_promoted(new_blocks, target_fn.path)
            if sub and sub.get("_tp"):
                self._subst_assoc_consts(new_blocks, sub["_tp"])
                self._subst_types(new_blocks, sub["_tp"])
            for nb in new_blocks:
                _shift_block(nb, loff, boff)
            span = {k: t.get(k) for k in ("file", "line", "exp", "macro")}
            # parameter passing
            pre = []
            for i, a in enumerate(args):
                if i + 1 > target_fn.argc:
                    break
                pre.append({"k": "assign", "dst": {"l": loff + 1 + i, "p": []}, "rv": {"k": "use", "op": a}, "param_pass": True, **span})
                aty = self._op_ty(a, locals_)
                if aty is not None and new_locals[1 + i]["ty"].get("k") == "param":
                    new_locals[1 + i] = dict(new_locals[1 + i])
                    new_locals[1 + i]["ty"] = aty
            dst = t["dst"]
            ret_target = t["target"]
            unwind = t["unwind"]
            for i, nb in enumerate(new_blocks):
                nt = nb["term"]
                k = nt["k"]
                if k == "return":
                    nb["stmts"].append({"k": "assign", "dst": copy.deepcopy(dst), "rv": {"k": "use", "op": {"k": "move", "pl": {"l": loff, "p": []}}}, "ret_pass": True, **span})
                    if ret_target is None:
                        nb["term"] = {"k": "unreachable", **span}
                    else:
                        nb["term"] = {"k": "goto", "target": ret_target, **span, "inl_return": True}
                elif k == "resume":
                    if isinstance(unwind, int):
                        nb["term"] = {"k": "goto", "target": unwind, **span, "inl_resume": True}
                    elif unwind == "continue":
                        pass
                    else:
                        nb["term"] = {"k": "terminate", **span}
                elif k in ("call", "drop", "assert"):
                    if nt.get("unwind") == "continue":
                        if isinstance(unwind, int):
                            nt["unwind"] = unwind
                        elif unwind in ("unreachable", "terminate"):
                            nt["unwind"] = unwind
            blocks[b]["stmts"].extend(pre)
            blocks[b]["term"] = {"k": "goto", "target": boff, **span, "inl_call": target_fn.path}
            locals_.extend(new_locals)
            blocks.extend(new_blocks)
            nchain = chain + (target_fn.path,)
            for i in range(len(new_blocks)):
                prov.append((target_fn.path, i, prov[b][2] + (fn_site(prov[b]),)))
                work.append((boff + i, nchain, sub))
        for nb in self._resolve_local_pointers(fn.argc, locals_, blocks):
            prov.append(prov[nb])
        d = {
            "path": fn.path, "kind": fn.kind, "locals": locals_, "blocks": blocks, "argc": fn.argc,
            "file": fn.file, "line": fn.line, "name": fn.name,
        }
        for k in ("vis", "reachable", "unsafe", "impl_self", "impl_trait", "root"):
            if k in fn.f:
                d[k] = fn.f[k]
        out = Fn(d, self.facts)
        out.prov = prov
        out.inlined = True
        out.unexpanded = list(self.lazy_unexpanded[n_unexp0:])   # crate code with effects that library code runs out of sight
        return out

    def _subst_types(self, x, tp):
        """Type descriptions that are exactly a type parameter H (or `&H` / `&mut H`) instantiated at the call site."""
        if isinstance(x, list):
            for i, y in enumerate(x):
                if isinstance(y, dict) and y.get("k") == "param" and y.get("s") in tp and "hp" in y:
                    x[i] = copy.deepcopy(tp[y["s"]])
                else:
                    self._subst_types(y, tp)
            return
        if not isinstance(x, dict):
            return
        for k2, v in list(x.items()):
            if isinstance(v, dict) and "hp" in v and "s" in v:
                if v.get("k") == "param" and v.get("s") in tp:
                    x[k2] = copy.deepcopy(tp[v["s"]])
                elif v.get("k") in ("ref", "refmut") and isinstance(v.get("s"), str) and v["s"].lstrip("&").replace("mut ", "").strip() in tp and not v.get("adt"):
                    conc = tp[v["s"].lstrip("&").replace("mut ", "").strip()]
                    if conc.get("adt") and conc.get("peel", 0) == 0:
                        nv = copy.deepcopy(conc)
                        nv.update({"s": v["s"].replace(v["s"].lstrip("&").replace("mut ", "").strip(), conc["s"]), "k": v["k"], "peel": 1})
                        x[k2] = nv
                else:
                    self._subst_types(v, tp)
            else:
                self._subst_types(v, tp)

    # ------------------------------------------------ associated constants of a type parameter
    def _subst_assoc_consts(self, blocks, tp):
        """`<H as Trait>::FLAG` inside a generic helper inlined with H := a concrete type of this crate: the impl's constant."""
        import re

        def walk(x):
            if isinstance(x, list):
                for y in x:
                    walk(y)
                return
            if not isinstance(x, dict):
                return
            if x.get("k") == "const" and "int" not in x and isinstance(x.get("desc"), str):
                m = re.match(r"^<(\w+) as (.+)>::(\w+)$", x["desc"])
                if m and m.group(1) in tp and tp[m.group(1)].get("s"):
                    path = "%s::<%s as %s>::%s" % (self.facts.crate, tp[m.group(1)]["s"], m.group(2), m.group(3))
                    c = self.facts.consts.get(path)
                    if c is not None and not (len(c["blocks"]) == 1 and len(c["blocks"][0]["stmts"]) == 1):
                        # a computed constant (`usize::MAX - 1`): evaluate its straight-line body
                        try:
                            from mir import Fn
                            from body import BodyInfo
                            bi = BodyInfo(Fn(dict(c, argc=0), self.facts))
                            v = bi.local_value(0, {}) if 0 not in bi.dyn else None
                        except Exception:
                            v = None
                        if v is not None and v[0] == "const" and v[1] is not None and str(v[1]).lstrip("-").isdigit():
                            x["int"] = str(v[1])
                            x["desc"] = str(v[1])
                        return
                    if c is not None and len(c["blocks"]) == 1 and len(c["blocks"][0]["stmts"]) == 1:
                        st = c["blocks"][0]["stmts"][0]
                        op = (st.get("rv") or {}).get("op") if (st.get("rv") or {}).get("k") == "use" else None
                        if st["k"] == "assign" and st["dst"] == {"l": 0, "p": []} and isinstance(op, dict) and op.get("k") == "const" and "int" in op:
                            x["int"] = op["int"]
                            x["size"] = op.get("size")
                            x["desc"] = op.get("desc")
                return
            for k2, v in x.items():
                if k2 in ("ty", "callee", "fn", "targs", "argtys"):
                    continue
                walk(v)
        for blk in blocks:
            walk(blk["stmts"])
            walk(blk["term"])

    # ------------------------------------------------ constructors used as functions
    def _expand_ctor(self, b, t, callee, blocks):
        """`Enum::Variant(x)` / `Tuple(x)` called as a function (`opt.map(Self::Variant)`): the aggregate itself."""
        if callee is None or self.facts.fn(callee["def"]) is not None or t.get("target") is None:
            return False
        d = callee["def"]
        adt = self.facts.adts.get(d)
        rv = None
        if adt is not None and adt.get("kind") == "Struct":
            names = [f["name"] for f in adt.get("fields", [])]
            if len(names) == len(t["args"]) and all(n.isdigit() for n in names):
                rv = {"k": "agg", "ak": "adt", "name": d, "variant": d.rsplit("::", 1)[-1], "vidx": 0, "fields": names, "ops": copy.deepcopy(t["args"])}
        elif "::" in d:
            parent, vname = d.rsplit("::", 1)
            adt = self.facts.adts.get(parent)
            if adt is not None and adt.get("kind") == "Enum":
                for v in adt.get("variants", []):
                    if v["name"] == vname:
                        names = [f["name"] for f in adt.get("fields", []) if f["variant"] == vname]
                        if len(names) == len(t["args"]):
                            rv = {"k": "agg", "ak": "adt", "name": parent, "variant": vname, "vidx": v["idx"], "fields": names, "ops": copy.deepcopy(t["args"])}
        if rv is None:
            return False
        span = {k: t.get(k) for k in ("file", "line", "exp", "macro")}
        blocks[b]["stmts"].append({"k": "assign", "dst": copy.deepcopy(t["dst"]), "rv": rv, **span})
        blocks[b]["term"] = {"k": "goto", "target": t["target"], **span, "adaptor": "ctor"}
        return True

    # ------------------------------------------------ calls through fn pointers
    def _devirtualise(self, b, locals_, blocks):
        """`p(args)` with `p` a fn pointer: every fn item of this crate that is turned into a fn pointer anywhere in the
        inlined body is a candidate.  The call becomes a switch on which candidate `p` is (decided per path by the
        interpreter from the value of `p`; all arms when it does not know), each arm a direct call; the fall-through arm
        keeps the indirect call for pointers that are none of them."""
        t = blocks[b]["term"]
        cands = []
        for blk in blocks:
            for st in blk["stmts"]:
                rv = st.get("rv") or {}
                if st["k"] == "assign" and rv.get("k") == "cast" and str(rv.get("ck", "")).startswith("Coerce:ReifyFnPointer") and rv["op"].get("k") == "const" and "fn" in rv["op"]:
                    fnj = rv["op"]["fn"]
                    if self.facts.fn(fnj["def"]) is not None and len((rv["op"].get("ty") or {}).get("fnin") or ()) == len(t["args"]) and fnj["def"] not in [c["def"] for c in cands]:
                        cands.append(fnj)
        # non-capturing closures coerced to fn pointers (`let step: fn(..) = |links, link| ..;`)
        for blk in blocks:
            for st in blk["stmts"]:
                rv = st.get("rv") or {}
                if st["k"] == "assign" and rv.get("k") == "cast" and str(rv.get("ck", "")).startswith("Coerce:ClosureFnPointer"):
                    cty = self._op_ty(rv["op"], locals_) or {}
                    cf = self.facts.fn(cty.get("closure") or "")
                    if cf is not None and cf.argc == len(t["args"]) + 1 and cty["closure"] not in [c["def"] for c in cands]:
                        cands.append({"def": cty["closure"], "crate": self.facts.crate, "full": cty["closure"], "local": True, "args": [], "targs": [], "_closure": cty})
        if not cands:
            return []
        span = {k: t.get(k) for k in ("file", "line", "exp", "macro")}
        new = []
        targets = []
        for i, fnj in enumerate(cands):
            stmts = []
            args = copy.deepcopy(t["args"])
            if fnj.get("_closure"):
                # the closure's body takes its (empty) environment first
                el = len(locals_)
                locals_.append({"ty": copy.deepcopy(fnj["_closure"]), "name": None})
                rl = len(locals_)
                ety = (self.facts.fn(fnj["def"]).locals[1].get("ty") or {})
                locals_.append({"ty": copy.deepcopy(ety), "name": None})
                stmts.append({"k": "assign", "dst": {"l": el, "p": []}, "rv": {"k": "agg", "ak": "closure", "name": fnj["def"], "variant": "", "vidx": 0, "fields": [], "ops": []}, **span})
                if ety.get("k") in ("ref", "refmut"):
                    stmts.append({"k": "assign", "dst": {"l": rl, "p": []}, "rv": {"k": "ref", "mut": ety.get("k") == "refmut", "pl": {"l": el, "p": []}}, **span})
                    args = [{"k": "move", "pl": {"l": rl, "p": []}}] + args
                else:
                    args = [{"k": "move", "pl": {"l": el, "p": []}}] + args
            cj = {k2: v2 for k2, v2 in fnj.items() if k2 != "_closure"}
            nt = {"k": "call", "callee": copy.deepcopy(cj), "fnop": {"k": "const", "ty": self.UNK_TY, "desc": cj["def"], "fn": copy.deepcopy(cj)},
                  "args": args, "argtys": copy.deepcopy(t.get("argtys") or []) if not fnj.get("_closure") else [], "dst": copy.deepcopy(t["dst"]), "target": t["target"], "unwind": t["unwind"], **span}
            blocks.append({"cleanup": blocks[b]["cleanup"], "stmts": stmts, "term": nt})
            targets.append((str(i), len(blocks) - 1))
            new.append(len(blocks) - 1)
        blocks.append({"cleanup": blocks[b]["cleanup"], "stmts": [], "term": t})
        new.append(len(blocks) - 1)
        blocks[b]["term"] = {"k": "switch", "discr": {"k": "fnid", "op": copy.deepcopy(t["fnop"]), "cands": [c["def"] for c in cands]}, "targets": targets, "otherwise": len(blocks) - 1, **span}
        return new

    # ------------------------------------------------ pointers to locals
    def _resolve_local_pointers(self, argc, locals_, blocks):
        """Accesses through a pointer that provably points at one local of this (inlined) body -- `r = &mut n; *r += 1`, a
        closure's captured `&mut n` once the closure body has been inlined -- are rewritten into accesses of that local, so
        that the value domain sees the writes.  A `&mut` to an integer local handed to code that is not inlined makes the
        local unknown after the call.  Returns, for every block added, the block whose provenance it shares."""
        n = len(locals_)
        defs = [[] for _ in range(n)]
        partial = [False] * n
        for i in range(1, argc + 1):
            defs[i].append(("param",))
        for blk in blocks:
            for st in blk["stmts"]:
                if st["k"] == "assign":
                    d = st["dst"]
                    if not d["p"]:
                        defs[d["l"]].append(("rv", st["rv"]))
                    elif d["p"][0] != "*":
                        partial[d["l"]] = True
                elif st["k"] == "setdiscr" and not (st["dst"]["p"] and st["dst"]["p"][0] == "*"):
                    partial[st["dst"]["l"]] = True
            t = blk["term"]
            if t["k"] == "call" and t.get("dst") is not None:
                d = t["dst"]
                if not d["p"]:
                    defs[d["l"]].append(("call",))
                elif d["p"][0] != "*":
                    partial[d["l"]] = True

        def only(l):
            return defs[l][0][1] if len(defs[l]) == 1 and defs[l][0][0] == "rv" and not partial[l] else None
        memo = {}

        def pt(x, depth=0):
            """(local pointed at, through a `&mut`?) or None"""
            if x in memo:
                return memo[x]
            memo[x] = None
            if depth > 12:
                return None
            rv = only(x)
            r = None
            if rv is not None:
                k = rv.get("k")
                if k in ("ref", "addr"):
                    pl = rv["pl"]
                    if not pl["p"]:
                        r = (pl["l"], rv.get("mut") is not False)
                    elif pl["p"] == ["*"]:
                        q = pt(pl["l"], depth + 1)
                        if q is not None:
                            r = (q[0], q[1] and rv.get("mut") is not False)
                elif k == "use" and rv["op"].get("k") in ("copy", "move"):
                    pl = rv["op"]["pl"]
                    if not pl["p"]:
                        r = pt(pl["l"], depth + 1)
                    else:
                        o = self._agg_field(pl, only, pt, depth)
                        if o is not None and o.get("k") in ("copy", "move") and not o["pl"]["p"]:
                            r = pt(o["pl"]["l"], depth + 1)
            memo[x] = r
            return r
        def ptf(x, depth=0):
            """Like `pt`, and also through `&mut local.f` / `&mut (*p).f` (a closure capturing one field of an iterator
            struct): (local, through a `&mut`?, [field projections])."""
            q = pt(x)
            if q is not None:
                return (q[0], q[1], [])
            if depth > 12:
                return None
            rv = only(x)
            if rv is None:
                return None
            k = rv.get("k")
            if k in ("ref", "addr"):
                p = rv["pl"]["p"]
                if p and p[0] == "*":
                    base, rest = ptf(rv["pl"]["l"], depth + 1), p[1:]
                else:
                    base, rest = (rv["pl"]["l"], True, []), p
                if base is None or not rest or not all(isinstance(e, dict) and "f" in e for e in rest):
                    return None
                return (base[0], base[1] and rv.get("mut") is not False, base[2] + copy.deepcopy(list(rest)))
            if k == "use" and rv["op"].get("k") in ("copy", "move"):
                pl = rv["op"]["pl"]
                if not pl["p"]:
                    return ptf(pl["l"], depth + 1)
                o = self._agg_field(pl, only, pt, depth)
                if o is not None and o.get("k") in ("copy", "move") and not o["pl"]["p"]:
                    return ptf(o["pl"]["l"], depth + 1)
            return None
        ints = ("int", "bool")
        # iterator types of the crate whose `next` steps its own fields: followed only when `self` is a local of this body;
        # accesses through `&mut self` then become accesses of that local's fields
        sm_locals = set()
        for (entry, b0, path, selfl) in getattr(self, "_state_machines", []):
            if entry != self._cur:
                continue
            q = pt(selfl) if selfl < n else None
            tyq = (locals_[q[0]].get("ty") or {}) if q is not None else {}
            if tyq.get("adt") == "core::iter::Rev" and tyq.get("peel", 0) == 0 and tyq.get("args") and path.endswith("::next_back"):
                tyq = tyq["args"][0]      # `Rev` is modelled as the iterator it wraps (_expand_rev)
            if q is not None and tyq.get("k") == "adt" and tyq.get("peel", 0) == 0 and str(tyq.get("adt", "")).startswith(self.facts.crate + "::") and tyq.get("adt") not in self.HANDLES:
                sm_locals.add(q[0])
            else:
                self.lazy_unexpanded.append((self._cur, b0, "`%s` is a state machine over its own fields (and the iterator is not a plain local of the caller)" % path.replace("cactusref::", "")))
        self._state_machines = [x for x in getattr(self, "_state_machines", []) if x[0] != self._cur]

        def is_place(x):
            return isinstance(x, dict) and "l" in x and isinstance(x.get("p"), list) and isinstance(x["l"], int)
        changed = [False]

        def rewrite(x):
            if isinstance(x, list):
                for y in x:
                    rewrite(y)
                return
            if not isinstance(x, dict):
                return
            if is_place(x):
                if x["p"] and x["p"][0] == "*":
                    q = pt(x["l"])
                    tyq = (locals_[q[0]].get("ty") or {}) if q is not None else {}
                    # integer locals, and struct locals of the crate's own types reached through `&mut self`
                    # (an iterator struct reading and stepping its own fields)
                    if q is not None and (tyq.get("k") in ints or (q[0] in sm_locals and len(x["p"]) >= 2 and isinstance(x["p"][1], dict) and "f" in x["p"][1])):
                        x["l"], x["p"] = q[0], x["p"][1:]
                        changed[0] = True
                    elif q is None and sm_locals:
                        q2 = ptf(x["l"])
                        if q2 is not None and q2[2] and q2[0] in sm_locals:
                            x["l"], x["p"] = q2[0], copy.deepcopy(q2[2]) + x["p"][1:]
                            changed[0] = True
                return
            for k2, v in x.items():
                if k2 in ("ty", "callee", "fn", "targs", "argtys", "_blk", "_blocks"):
                    continue
                rewrite(v)
        for blk in blocks:
            rewrite(blk["stmts"])
            rewrite(blk["term"])
        # `opt.take()` through a pointer that only now resolved to a field of an iterator struct held in a local
        if sm_locals:
            for b in range(len(blocks)):
                t = blocks[b]["term"]
                if t["k"] == "call" and t.get("callee") and t["callee"].get("def") == "core::option::Option::<T>::take":
                    self._expand_option_take(b, t, t["callee"], locals_, blocks)
        # `next(&mut it)` on a slice iterator held in a local: remember which local (the interpreter advances it in place
        # when it walks a known constant array)
        for blk in blocks:
            t = blk["term"]
            if t["k"] == "call" and t.get("callee") and t["callee"].get("def") == "core::iter::Iterator::next" and (t["callee"].get("self_ty") or {}).get("adt") in ("core::slice::iter::Iter", "core::slice::Iter") \
                    and (t["callee"].get("self_ty") or {}).get("peel", 0) == 0 and len(t["args"]) == 1 and t["args"][0].get("k") in ("copy", "move") and not t["args"][0]["pl"]["p"]:
                q = pt(t["args"][0]["pl"]["l"])
                if q is not None and q[1]:
                    t["recv_local"] = q[0]
        # `&mut n` (n an integer local) handed to code we do not see into
        added = []
        for b in range(len(blocks)):
            t = blocks[b]["term"]
            if t["k"] != "call" or not isinstance(t.get("target"), int):
                continue
            hv = []
            for a in t.get("args") or []:
                if a.get("k") in ("copy", "move") and not a["pl"]["p"]:
                    q = pt(a["pl"]["l"])
                    if q is not None and q[1] and (locals_[q[0]].get("ty") or {}).get("k") in ints and (locals_[a["pl"]["l"]].get("ty") or {}).get("k") in ("refmut", "ptrmut", "ptr", "rawptr"):
                        hv.append(q[0])
            if hv:
                span = {k: t.get(k) for k in ("file", "line", "exp", "macro")}
                sts = [{"k": "assign", "dst": {"l": l, "p": []}, "rv": {"k": "havoc", "desc": "&mut@%d" % b}, **span} for l in sorted(set(hv))]
                blocks.append({"cleanup": blocks[b]["cleanup"], "stmts": sts, "term": {"k": "goto", "target": t["target"], **span}})
                t["target"] = len(blocks) - 1
                added.append(b)
        return added

    @staticmethod
    def _agg_field(pl, only, pt, depth):
        """The operand stored in field N of an aggregate (closure environment, tuple) reached by `pl` = `c.N` or `(*e).N`."""
        proj = pl["p"]
        f = proj[-1]
        if not (isinstance(f, dict) and "f" in f):
            return None
        base = pl["l"]
        pre = proj[:-1]
        while pre:
            if pre[0] != "*":
                return None
            q = pt(base, depth + 1)
            if q is None:
                return None
            base, pre = q[0], pre[1:]
        rv = only(base)
        hops = 0
        while rv is not None and rv.get("k") == "use" and rv["op"].get("k") in ("copy", "move") and not rv["op"]["pl"]["p"] and hops < 8:
            rv = only(rv["op"]["pl"]["l"])
            hops += 1
        if rv is None or rv.get("k") != "agg" or rv.get("ak") not in ("closure", "tuple"):
            return None
        ops = rv.get("ops") or []
        return ops[f["f"]] if f["f"] < len(ops) else None

    # ------------------------------------------------ Drop impls of the crate's own types
    HANDLES = ("cactusref::rc::Rc", "cactusref::rc::Weak")

    def _expand_local_drop(self, b, t, locals_, blocks):
        """`drop(place: X)` where X is a type of the analysed crate with its own Drop impl (other than
        the handle types, whose drop re-enters the library and is modelled as an event): call
        <X as Drop>::drop(&mut place), then run the drop glue of the fields."""
        ty = t["ty"]
        adt = ty.get("adt")
        if not adt or ty.get("peel", 0) != 0 or not adt.startswith(self.facts.crate + "::") or adt in self.HANDLES or not ty.get("dtor"):
            return None
        impl = None
        for f in self.facts.fns.values():
            if f.f.get("impl_trait") == "core::ops::Drop" and f.name == "drop" and (f.f.get("impl_self") or {}).get("adt") == adt:
                impl = f
        if impl is None:
            return None
        span = {k: t.get(k) for k in ("file", "line", "exp", "macro")}
        rl = len(locals_)
        locals_.append({"ty": {"s": "&mut " + ty.get("s", "?"), "k": "refmut", "adt": adt, "peel": 1, "hp": ty.get("hp"), "nd": False, "dp": 0}, "name": None})
        ul = len(locals_)
        locals_.append({"ty": {"s": "()", "k": "tuple", "hp": False, "nd": False, "dp": 0}, "name": None})
        glue = dict(t)
        glue["glue_only"] = True
        gty = dict(ty)
        gty["dp"] = ty.get("dpf", ty.get("dp", 0))
        gty["dtor"] = False
        glue["ty"] = gty
        nb = len(blocks)
        blocks.append({"cleanup": blocks[b]["cleanup"], "stmts": [], "term": glue})
        blocks[b]["stmts"].append({"k": "assign", "dst": {"l": rl, "p": []}, "rv": {"k": "ref", "mut": True, "pl": copy.deepcopy(t["pl"])}, **span})
        callee = {"def": "core::ops::Drop::drop", "full": "<%s as core::ops::Drop>::drop" % ty.get("s"), "crate": "core", "args": [], "targs": [], "local": False,
                  "trait": "core::ops::Drop", "self_ty": ty, "resolved": impl.path, "rk": "item", "resolved_crate": self.facts.crate}
        blocks[b]["term"] = {"k": "call", "callee": callee, "fnop": {"k": "const", "ty": {"s": "fn", "k": "fndef"}, "desc": "drop"},
                             "args": [{"k": "move", "pl": {"l": rl, "p": []}}], "argtys": [locals_[rl]["ty"]], "dst": {"l": ul, "p": []},
                             "target": nb, "unwind": t["unwind"], **span, "drop_impl_of": adt}
        return nb

    # ------------------------------------------------ containers of the crate's own Drop types
    def _guard_types(self, ty):
        """Local ADTs (other than the handle types) with an effectful Drop impl that the drop glue of `ty` can run."""
        out = []
        for p in ty.get("ldt") or []:
            if p in self.HANDLES:
                continue
            for f in self.facts.fns.values():
                if f.f.get("impl_trait") == "core::ops::Drop" and f.name == "drop" and (f.f.get("impl_self") or {}).get("adt") == p:
                    if self._effectful({"k": "fndef", "fndef": f.path}):
                        out.append(p)
        return out

    def _expand_container_drop(self, b, t, locals_, blocks):
        """`drop(place: Vec<G>)` / `Option<G>` / a tuple containing G, where G is a type of this crate whose Drop impl has
        effects: the library's drop glue would run G::drop out of sight.  The drop is rewritten element by element
        (a Vec as the pop loop it amounts to, including the continuation that keeps dropping the remaining elements
        while unwinding out of one element's destructor)."""
        ty = t["ty"]
        if ty.get("peel", 0) != 0 and ty.get("k") in ("ref", "refmut", "ptr", "ptrmut"):
            return None
        guards = self._guard_types(ty)
        if not guards:
            return None
        adt = ty.get("adt")
        if adt in guards and ty.get("peel", 0) == 0:
            return None     # the guard itself: _expand_local_drop
        if not self.expand_guard_containers:
            # The elements' identities are lost through the container (a popped guard is "some" earlier element), so an
            # element-wise expansion would make the rules speak about unknown boxes.  No verdict instead.
            self.lazy_unexpanded.append((self._cur, b, "the drop glue of `%s` runs the Drop impl of %s (a type of this crate with side effects) once per element from inside library code" % (ty.get("s", "?")[:80], guards[0])))
            return None
        span = {k: t.get(k) for k in ("file", "line", "exp", "macro")}
        cleanup = blocks[b]["cleanup"]
        unwind = t["unwind"]
        nl = lambda ty_: (locals_.append({"ty": ty_, "name": None}), len(locals_) - 1)[1]
        args = ty.get("args") or []
        def stripped(ty_):
            g = dict(ty_)
            g.pop("ldt", None)
            g["dp"] = 0
            return g
        if adt in ("alloc::vec::Vec", "alloc::collections::VecDeque") and len(args) >= 1:
            ety = args[0]
            popname = "pop" if adt == "alloc::vec::Vec" else "pop_front"
            callee = {"def": ("alloc::vec::Vec::<T, A>::" if adt == "alloc::vec::Vec" else "alloc::collections::VecDeque::<T, A>::") + popname, "full": adt + "::" + popname, "crate": "alloc", "args": [], "targs": [], "local": False}
            def loop(in_cleanup, after):
                """blocks of one pop loop; `after` = terminator reached when the container is empty"""
                r = nl({"s": "&mut ?", "k": "refmut", "hp": False, "nd": False, "dp": 0})
                e = nl(dict(self.OPT_TY))
                d = nl({"s": "isize", "k": "int", "hp": False, "nd": False, "dp": 0})
                x = nl(ety)
                n0 = len(blocks)
                hdr, sw, body, done = n0, n0 + 1, n0 + 2, n0 + 3
                uw = "terminate" if in_cleanup else None
                blocks.append({"cleanup": in_cleanup, "stmts": [{"k": "assign", "dst": {"l": r, "p": []}, "rv": {"k": "ref", "mut": True, "pl": copy.deepcopy(t["pl"])}, **span}],
                               "term": {"k": "call", "callee": callee, "fnop": {"k": "const", "ty": self.UNK_TY, "desc": popname}, "args": [{"k": "move", "pl": {"l": r, "p": []}}], "argtys": [],
                                        "dst": {"l": e, "p": []}, "target": sw, "unwind": "terminate" if in_cleanup else unwind, **span}})
                blocks.append({"cleanup": in_cleanup, "stmts": [{"k": "assign", "dst": {"l": d, "p": []}, "rv": {"k": "discr", "pl": {"l": e, "p": []}}, **span}],
                               "term": {"k": "switch", "discr": {"k": "move", "pl": {"l": d, "p": []}}, "targets": [["0", done], ["1", body]], "otherwise": done, **span}})
                blocks.append({"cleanup": in_cleanup, "stmts": [{"k": "assign", "dst": {"l": x, "p": []}, "rv": {"k": "use", "op": {"k": "move", "pl": {"l": e, "p": [{"dc": "Some", "vi": 1}, {"f": 0, "n": "0", "of": ""}]}}}, **span}],
                               "term": {"k": "drop", "pl": {"l": x, "p": []}, "ty": ety, "target": hdr, "unwind": uw, **span}})
                glue = dict(t)
                glue["glue_only"] = True
                glue["ty"] = stripped(ty)
                glue.update(after)
                blocks.append({"cleanup": in_cleanup, "stmts": [], "term": glue})
                return hdr, body, [hdr, sw, body, done]
            new = []
            if cleanup or not isinstance(unwind, int):
                hdr, body, bl = loop(True if cleanup else False, {"target": t["target"], "unwind": unwind})
                if not cleanup:
                    blocks[body]["term"]["unwind"] = unwind
                new += bl
            else:
                # while unwinding out of one element's destructor the remaining elements are still dropped
                chdr, cbody, cbl = loop(True, {"target": unwind, "unwind": "terminate"})
                hdr, body, bl = loop(False, {"target": t["target"], "unwind": unwind})
                blocks[body]["term"]["unwind"] = chdr
                new += cbl + bl
            blocks[b]["term"] = {"k": "goto", "target": hdr, **span, "adaptor": "container-drop"}
            return new
        if adt == "core::option::Option" and len(args) >= 1:
            d = nl({"s": "isize", "k": "int", "hp": False, "nd": False, "dp": 0})
            n0 = len(blocks)
            pl = copy.deepcopy(t["pl"])
            pl["p"] = pl["p"] + [{"dc": "Some", "vi": 1}, {"f": 0, "n": "0", "of": ""}]
            blocks.append({"cleanup": cleanup, "stmts": [], "term": {"k": "drop", "pl": pl, "ty": args[0], "target": t["target"], "unwind": unwind, **span}})
            blocks[b]["stmts"].append({"k": "assign", "dst": {"l": d, "p": []}, "rv": {"k": "discr", "pl": copy.deepcopy(t["pl"])}, **span})
            blocks[b]["term"] = {"k": "switch", "discr": {"k": "move", "pl": {"l": d, "p": []}}, "targets": [["1", n0]], "otherwise": t["target"], **span, "adaptor": "container-drop"}
            return [n0]
        if ty.get("k") == "tuple" and args:
            n0 = len(blocks)
            idx = [i for i, a in enumerate(args) if a.get("nd") or a.get("ldt")]
            nxt = t["target"]
            new = []
            for i in reversed(idx):
                pl = copy.deepcopy(t["pl"])
                pl["p"] = pl["p"] + [{"f": i, "n": str(i), "of": "tuple"}]
                blocks.append({"cleanup": cleanup, "stmts": [], "term": {"k": "drop", "pl": pl, "ty": args[i], "target": nxt, "unwind": unwind, **span}})
                nxt = len(blocks) - 1
                new.append(nxt)
            blocks[b]["term"] = {"k": "goto", "target": nxt, **span, "adaptor": "container-drop"}
            return new
        self.lazy_unexpanded.append((self._cur, b, "the drop glue of `%s` runs the Drop impl of %s (a type of this crate with side effects) from inside library code" % (ty.get("s", "?")[:80], guards[0])))
        return None

    # ------------------------------------------------ library adaptors
    # Option/Result combinators taking a closure are expanded into the
    # equivalent switch + closure call, so that the closure body is inlined
    # and both outcomes are visible as control flow.
    ADAPTORS = {
        "core::result::Result::<T, E>::unwrap_or_else": ("Result", "Ok", "Err", "payload", "call_on_other"),
        "core::option::Option::<T>::map_or": ("Option", "Some", "None", "call", "default"),
        "core::option::Option::<T>::unwrap_or_else": ("Option", "Some", "None", "payload", "call0"),
        "core::option::Option::<T>::map_or_else": ("Option", "Some", "None", "call", "call0"),
        "core::result::Result::<T, E>::map_or_else": ("Result", "Ok", "Err", "call", "call_on_other"),
        "core::option::Option::<T>::or_else": ("Option", "Some", "None", "self", "call0"),
    }

    # conversions between Option and Result: a switch on the discriminant, each arm builds the other type's variant
    VARIANT_MAPS = {
        #  callee: ((arg variant idx, arg variant name, takes payload) -> (adt, variant, idx, payload from: "payload" | "arg1" | None)), ...
        "core::result::Result::<T, E>::ok": ("core::result::Result", (("0", "Ok", ("core::option::Option", "Some", 1, "payload")), ("1", "Err", ("core::option::Option", "None", 0, None)))),
        "core::result::Result::<T, E>::err": ("core::result::Result", (("0", "Ok", ("core::option::Option", "None", 0, None)), ("1", "Err", ("core::option::Option", "Some", 1, "payload")))),
        "core::option::Option::<T>::ok_or": ("core::option::Option", (("1", "Some", ("core::result::Result", "Ok", 0, "payload")), ("0", "None", ("core::result::Result", "Err", 1, "arg1")))),
    }

    def _expand_variant_map(self, b, t, callee, locals_, blocks):
        adt, arms = self.VARIANT_MAPS[callee["def"]]
        args = t["args"]
        if not args or args[0]["k"] not in ("move", "copy"):
            return None
        # a payload that is thrown away must have no drop glue (else its destructor runs inside the callee)
        targs = callee.get("targs") or []
        for vi, vname, (_a, _v, _i, src) in arms:
            if src is None:
                which = {"Ok": 0, "Err": 1, "Some": 0}.get(vname)
                if which is not None and which < len(targs) and (targs[which].get("dp", 0) or targs[which].get("nd")):
                    return None
        if any(src == "arg1" for _vi, _vn, (_a, _v, _i, src) in arms) and len(args) > 1:
            aty = self._op_ty(args[1], locals_) or {}
            if aty.get("dp", 0) or aty.get("nd"):
                return None
        span = {k: t.get(k) for k in ("file", "line", "exp", "macro")}
        cleanup = blocks[b]["cleanup"]
        dl = len(locals_)
        locals_.append({"ty": {"s": "isize", "k": "int", "hp": False, "nd": False, "dp": 0}, "name": None})
        goto = {"k": "goto", "target": t["target"], **span} if t["target"] is not None else {"k": "unreachable", **span}
        blocks[b]["stmts"].append({"k": "assign", "dst": {"l": dl, "p": []}, "rv": {"k": "discr", "pl": copy.deepcopy(args[0]["pl"])}, **span})
        new, targets = [], []
        for vi, vname, (radt, rvar, ridx, src) in arms:
            ops = []
            if src == "payload":
                pl = copy.deepcopy(args[0]["pl"])
                pl["p"] = pl["p"] + [{"dc": vname, "vi": int(vi)}, {"f": 0, "n": "0", "of": adt}]
                ops = [{"k": "move", "pl": pl}]
            elif src == "arg1":
                ops = [copy.deepcopy(args[1])]
            rv = {"k": "agg", "ak": "adt", "name": radt, "variant": rvar, "vidx": ridx, "fields": ["0"] if ops else [], "ops": ops}
            blocks.append({"cleanup": cleanup, "stmts": [{"k": "assign", "dst": copy.deepcopy(t["dst"]), "rv": rv, **span}], "term": dict(goto)})
            new.append(len(blocks) - 1)
            targets.append([vi, len(blocks) - 1])
        blocks.append({"cleanup": cleanup, "stmts": [], "term": {"k": "unreachable", **span}})
        new.append(len(blocks) - 1)
        blocks[b]["term"] = {"k": "switch", "discr": {"k": "move", "pl": {"l": dl, "p": []}}, "targets": targets, "otherwise": len(blocks) - 1, **span, "adaptor": "variant-map"}
        return new

    def _expand_result_try(self, b, t, callee, locals_, blocks):
        """`res?` on a Result: `branch` maps Ok(v) -> Continue(v), Err(e) -> Break(Err(e)); `from_residual(Err(e))` is
        Err(e) when the error types agree (`From::from` is the identity then)."""
        args = t["args"]
        if len(args) != 1 or args[0]["k"] not in ("move", "copy") or t.get("target") is None:
            return None
        span = {k: t.get(k) for k in ("file", "line", "exp", "macro")}
        cleanup = blocks[b]["cleanup"]
        goto = {"k": "goto", "target": t["target"], **span}
        RES, CF = "core::result::Result", "core::ops::ControlFlow"

        def payload(vname, vi):
            pl = copy.deepcopy(args[0]["pl"])
            pl["p"] = pl["p"] + [{"dc": vname, "vi": vi}, {"f": 0, "n": "0", "of": RES}]
            return {"k": "move", "pl": pl}
        if callee["def"].endswith("from_residual"):
            targs = callee.get("targs") or []
            if len(targs) != 2 or len(targs[0].get("args") or ()) != 2 or len(targs[1].get("args") or ()) != 2 or targs[0]["args"][1].get("s") != targs[1]["args"][1].get("s"):
                return None
            rv = {"k": "agg", "ak": "adt", "name": RES, "variant": "Err", "vidx": 1, "fields": ["0"], "ops": [payload("Err", 1)]}
            blocks[b]["stmts"].append({"k": "assign", "dst": copy.deepcopy(t["dst"]), "rv": rv, **span})
            blocks[b]["term"] = dict(goto, adaptor="from_residual")
            return []
        dl = len(locals_)
        locals_.append({"ty": {"s": "isize", "k": "int", "hp": False, "nd": False, "dp": 0}, "name": None})
        tl = len(locals_)
        locals_.append({"ty": dict(self.UNK_TY), "name": None})
        blocks[b]["stmts"].append({"k": "assign", "dst": {"l": dl, "p": []}, "rv": {"k": "discr", "pl": copy.deepcopy(args[0]["pl"])}, **span})
        nb0 = len(blocks)
        cont = {"k": "agg", "ak": "adt", "name": CF, "variant": "Continue", "vidx": 0, "fields": ["0"], "ops": [payload("Ok", 0)]}
        blocks.append({"cleanup": cleanup, "stmts": [{"k": "assign", "dst": copy.deepcopy(t["dst"]), "rv": cont, **span}], "term": dict(goto)})
        err = {"k": "agg", "ak": "adt", "name": RES, "variant": "Err", "vidx": 1, "fields": ["0"], "ops": [payload("Err", 1)]}
        brk = {"k": "agg", "ak": "adt", "name": CF, "variant": "Break", "vidx": 1, "fields": ["0"], "ops": [{"k": "move", "pl": {"l": tl, "p": []}}]}
        blocks.append({"cleanup": cleanup, "stmts": [{"k": "assign", "dst": {"l": tl, "p": []}, "rv": err, **span}, {"k": "assign", "dst": copy.deepcopy(t["dst"]), "rv": brk, **span}], "term": dict(goto)})
        blocks.append({"cleanup": cleanup, "stmts": [], "term": {"k": "unreachable", **span}})
        blocks[b]["term"] = {"k": "switch", "discr": {"k": "move", "pl": {"l": dl, "p": []}}, "targets": [["0", nb0], ["1", nb0 + 1]], "otherwise": nb0 + 2, **span, "adaptor": "result-branch"}
        return [nb0, nb0 + 1, nb0 + 2]

    VARIANT_TESTS = {
        "core::option::Option::<T>::is_some": "1", "core::option::Option::<T>::is_none": "0",
        "core::result::Result::<T, E>::is_ok": "0", "core::result::Result::<T, E>::is_err": "1",
    }

    def _expand_variant_test(self, b, t, callee, locals_, blocks):
        """`opt.is_some()` / `is_none()` / `res.is_ok()` / `is_err()`: a switch on the discriminant."""
        want = self.VARIANT_TESTS[callee["def"]]
        args = t["args"]
        if len(args) != 1 or args[0]["k"] not in ("move", "copy"):
            return None
        span = {k: t.get(k) for k in ("file", "line", "exp", "macro")}
        cleanup = blocks[b]["cleanup"]
        boolty = {"s": "bool", "k": "bool", "hp": False, "nd": False, "dp": 0}
        dl = len(locals_)
        locals_.append({"ty": {"s": "isize", "k": "int", "hp": False, "nd": False, "dp": 0}, "name": None})
        pl = copy.deepcopy(args[0]["pl"])
        pl["p"] = pl["p"] + ["*"]
        goto = {"k": "goto", "target": t["target"], **span} if t["target"] is not None else {"k": "unreachable", **span}

        def const_bool(v):
            return {"k": "use", "op": {"k": "const", "ty": boolty, "int": "1" if v else "0", "desc": "true" if v else "false"}}
        nb0 = len(blocks)
        blocks.append({"cleanup": cleanup, "stmts": [{"k": "assign", "dst": copy.deepcopy(t["dst"]), "rv": const_bool(True), **span}], "term": dict(goto)})
        blocks.append({"cleanup": cleanup, "stmts": [{"k": "assign", "dst": copy.deepcopy(t["dst"]), "rv": const_bool(False), **span}], "term": dict(goto)})
        blocks[b]["stmts"].append({"k": "assign", "dst": {"l": dl, "p": []}, "rv": {"k": "discr", "pl": pl}, **span})
        other = "0" if want == "1" else "1"
        blocks.append({"cleanup": cleanup, "stmts": [], "term": {"k": "unreachable", **span}})     # two variants, both listed
        blocks[b]["term"] = {"k": "switch", "discr": {"k": "move", "pl": {"l": dl, "p": []}}, "targets": [[want, nb0], [other, nb0 + 1]], "otherwise": nb0 + 2, **span, "adaptor": "variant-test"}
        return [nb0, nb0 + 1, nb0 + 2]

    def _expand_tuple_eq(self, b, t, callee, locals_, blocks):
        """`(a, b) == (c, d)` on tuples of integers / bools / chars: the short-circuit chain of field comparisons the
        library impl performs (so that `counts == (1, 0)` refines like `strong == 1 && weak == 0`)."""
        st = callee["self_ty"]
        elems = st.get("args") or []
        args = t["args"]
        if not elems or len(args) != 2 or any(e.get("k") not in ("int", "uint", "bool", "char") for e in elems):
            return None
        if any(a.get("k") not in ("move", "copy") for a in args):
            return None
        span = {k: t.get(k) for k in ("file", "line", "exp", "macro")}
        cleanup = blocks[b]["cleanup"]
        boolty = {"s": "bool", "k": "bool", "hp": False, "nd": False, "dp": 0}
        is_ne = callee["def"].endswith("::ne")

        def fld(arg, i):
            pl = copy.deepcopy(arg["pl"])
            pl["p"] = pl["p"] + ["*", {"f": i, "n": str(i), "of": ""}]
            return {"k": "copy", "pl": pl}

        def const_bool(v):
            return {"k": "use", "op": {"k": "const", "ty": boolty, "int": "1" if v else "0", "desc": "true" if v else "false"}}
        goto = {"k": "goto", "target": t["target"], **span} if t["target"] is not None else {"k": "unreachable", **span}
        nb0 = len(blocks)
        n = len(elems)
        # blocks: nb0 .. nb0+n-2 = tests of fields 1..n-1 ; then equal-block ; then differ-block
        eq_blk = nb0 + (n - 1)
        ne_blk = eq_blk + 1
        tests = []
        for i in range(n):
            tl = len(locals_)
            locals_.append({"ty": boolty, "name": None})
            stmt = {"k": "assign", "dst": {"l": tl, "p": []}, "rv": {"k": "bin", "op": "Eq", "a": fld(args[0], i), "b": fld(args[1], i)}, **span}
            nxt = eq_blk if i == n - 1 else nb0 + i
            term = {"k": "switch", "discr": {"k": "move", "pl": {"l": tl, "p": []}}, "targets": [["0", ne_blk]], "otherwise": nxt, **span}
            tests.append((stmt, term))
        blocks[b]["stmts"].append(tests[0][0])
        blocks[b]["term"] = dict(tests[0][1], adaptor="tuple-eq")
        for stmt, term in tests[1:]:
            blocks.append({"cleanup": cleanup, "stmts": [stmt], "term": term})
        blocks.append({"cleanup": cleanup, "stmts": [{"k": "assign", "dst": copy.deepcopy(t["dst"]), "rv": const_bool(not is_ne), **span}], "term": dict(goto)})
        blocks.append({"cleanup": cleanup, "stmts": [{"k": "assign", "dst": copy.deepcopy(t["dst"]), "rv": const_bool(is_ne), **span}], "term": dict(goto)})
        return list(range(nb0, ne_blk + 1))

    def _expand_ne(self, b, t, callee, locals_, blocks):
        """`a != b` on a type of the crate that only defines `eq` (derive(PartialEq) or a manual impl): the provided
        `ne` of core is `!eq(a, b)`."""
        st = callee.get("self_ty") or {}
        adt = st.get("adt")
        if not adt or not adt.startswith(self.facts.crate + "::") or st.get("peel", 0) != 0:
            return None
        impl = None
        for f in self.facts.fns.values():
            if f.f.get("impl_trait") == "core::cmp::PartialEq" and (f.f.get("impl_self") or {}).get("adt") == adt and (f.f.get("impl_self") or {}).get("peel", 0) == 0:
                if f.name == "ne":
                    return None     # the type has its own `ne`: resolved normally
                if f.name == "eq":
                    impl = f
        if impl is None:
            return None
        span = {k: t.get(k) for k in ("file", "line", "exp", "macro")}
        bl = len(locals_)
        locals_.append({"ty": {"s": "bool", "k": "bool", "hp": False, "nd": False, "dp": 0}, "name": None})
        nb = len(blocks)
        goto_t = {"k": "goto", "target": t["target"], **span} if t["target"] is not None else {"k": "unreachable", **span}
        blocks.append({"cleanup": blocks[b]["cleanup"], "stmts": [{"k": "assign", "dst": copy.deepcopy(t["dst"]), "rv": {"k": "un", "op": "Not", "a": {"k": "move", "pl": {"l": bl, "p": []}}}, **span}], "term": goto_t})
        ecallee = dict(callee)
        ecallee.update({"def": "core::cmp::PartialEq::eq", "full": callee.get("full", "").replace("::ne", "::eq"), "resolved": impl.path, "rk": "item", "resolved_crate": self.facts.crate})
        nt = dict(t)
        nt.update({"callee": ecallee, "dst": {"l": bl, "p": []}, "target": nb})
        blocks[b]["term"] = nt
        self._rework.append(b)
        return [nb]

    def _expand_for_each(self, b, t, callee, locals_, blocks):
        """`iter.for_each(f)` with a statically known closure / fn item becomes the loop it abbreviates:
        loop { match Iterator::next(&mut iter) { Some(x) => f(x), None => break } }"""
        args = t["args"]
        if len(args) != 2 or args[0]["k"] not in ("move", "copy") or args[0]["pl"]["p"]:
            return None
        fty = self._op_ty(args[1], locals_)
        if fty is None or fty.get("k") not in ("closure", "fndef"):
            return None
        span = {k: t.get(k) for k in ("file", "line", "exp", "macro")}
        unk = {"s": "?", "k": "other", "hp": False, "nd": False, "dp": 0}
        it = args[0]["pl"]["l"]
        rl = len(locals_); locals_.append({"ty": {"s": "&mut ?", "k": "refmut", "hp": False, "nd": False, "dp": 0}, "name": None})
        ol = len(locals_); locals_.append({"ty": {"s": "Option<?>", "k": "adt", "adt": "core::option::Option", "peel": 0, "hp": False, "nd": False, "dp": 0}, "name": None})
        dl = len(locals_); locals_.append({"ty": {"s": "isize", "k": "int", "hp": False, "nd": False, "dp": 0}, "name": None})
        pl_ = len(locals_); locals_.append({"ty": unk, "name": None})
        tl = len(locals_); locals_.append({"ty": {"s": "(?,)", "k": "tuple", "hp": False, "nd": False, "dp": 0}, "name": None})
        ul = len(locals_); locals_.append({"ty": {"s": "()", "k": "tuple", "hp": False, "nd": False, "dp": 0}, "name": None})
        fl = len(locals_); locals_.append({"ty": fty, "name": None})
        frl = len(locals_); locals_.append({"ty": {"s": "&mut ?", "k": "refmut", "hp": False, "nd": False, "dp": 0}, "name": None})
        cleanup = blocks[b]["cleanup"]
        hdr = len(blocks)
        sw = hdr + 1
        body = hdr + 2
        done = hdr + 3
        itty = t.get("argtys", [unk])[0] if t.get("argtys") else unk
        # the element type is the closure's / fn item's parameter type
        if fty.get("k") == "fndef" and fty.get("fnin"):
            ity = fty["fnin"][0]
            locals_[ol]["ty"] = dict(locals_[ol]["ty"], s="core::option::Option<%s>" % ity.get("s", "?"))
            locals_[pl_]["ty"] = ity
        if fty.get("k") == "closure":
            cf = self.facts.fn(fty["closure"])
            if cf is not None and cf.argc >= 2:
                ity = cf.locals[2]["ty"]
                locals_[ol]["ty"] = dict(locals_[ol]["ty"], s="core::option::Option<%s>" % ity.get("s", "?"))
                locals_[pl_]["ty"] = ity
        next_callee = {"def": "core::iter::Iterator::next", "full": "core::iter::Iterator::next", "crate": "core", "args": [], "targs": [], "local": False,
                       "trait": "core::iter::Iterator", "self_ty": itty}
        blocks.append({"cleanup": cleanup, "stmts": [{"k": "assign", "dst": {"l": rl, "p": []}, "rv": {"k": "ref", "mut": True, "pl": {"l": it, "p": []}}, **span}],
                       "term": {"k": "call", "callee": next_callee, "fnop": {"k": "const", "ty": unk, "desc": "next"}, "args": [{"k": "move", "pl": {"l": rl, "p": []}}],
                                "argtys": [{"s": "&mut ?", "k": "refmut"}], "dst": {"l": ol, "p": []}, "target": sw, "unwind": t["unwind"], **span, "macro": "Desugaring(ForLoop)"}})
        blocks.append({"cleanup": cleanup, "stmts": [{"k": "assign", "dst": {"l": dl, "p": []}, "rv": {"k": "discr", "pl": {"l": ol, "p": []}}, **span}],
                       "term": {"k": "switch", "discr": {"k": "move", "pl": {"l": dl, "p": []}}, "targets": [["0", done], ["1", body]], "otherwise": done, **span}})
        payload = {"k": "move", "pl": {"l": ol, "p": [{"dc": "Some", "vi": 1}, {"f": 0, "n": "0", "of": ""}]}}
        blocks.append({"cleanup": cleanup, "stmts": [
            {"k": "assign", "dst": {"l": pl_, "p": []}, "rv": {"k": "use", "op": payload}, **span},
            {"k": "assign", "dst": {"l": tl, "p": []}, "rv": {"k": "agg", "ak": "tuple", "name": "", "variant": "", "vidx": 0, "fields": [], "ops": [{"k": "move", "pl": {"l": pl_, "p": []}}]}, **span},
            {"k": "assign", "dst": {"l": frl, "p": []}, "rv": {"k": "ref", "mut": True, "pl": {"l": fl, "p": []}}, **span}],
            "term": {"k": "call", "callee": {"def": "core::ops::FnMut::call_mut", "full": "core::ops::FnMut::call_mut", "crate": "core", "args": [], "targs": [], "local": False, "trait": "core::ops::FnMut"},
                     "fnop": {"k": "const", "ty": unk, "desc": "call_mut"}, "args": [{"k": "move", "pl": {"l": frl, "p": []}}, {"k": "move", "pl": {"l": tl, "p": []}}],
                     "argtys": [fty, {"s": "(?,)", "k": "tuple"}], "dst": {"l": ul, "p": []}, "target": hdr, "unwind": t["unwind"], **span}})
        blocks.append({"cleanup": cleanup, "stmts": [{"k": "assign", "dst": copy.deepcopy(t["dst"]), "rv": {"k": "use", "op": {"k": "const", "ty": {"s": "()", "k": "tuple"}, "desc": "()"}}, **span}],
                       "term": {"k": "goto", "target": t["target"], **span} if t["target"] is not None else {"k": "unreachable", **span}})
        blocks[b]["stmts"].append({"k": "assign", "dst": {"l": fl, "p": []}, "rv": {"k": "use", "op": copy.deepcopy(args[1])}, **span})
        blocks[b]["term"] = {"k": "goto", "target": hdr, **span, "adaptor": "for_each"}
        return [hdr, sw, body, done]

    @staticmethod
    def _ref_target(blk, rl):
        """The local that reference-local `rl` points to, when it was borrowed in this block (`_r = &mut it`, possibly
        through the reborrow `_r2 = &mut *_r` of the for-loop desugaring)."""
        for _ in range(4):
            found = None
            for s_ in blk["stmts"]:
                if s_["k"] == "assign" and s_["dst"] == {"l": rl, "p": []}:
                    found = s_["rv"]
            if found is None or found["k"] != "ref":
                return None
            pl = found["pl"]
            if not pl["p"]:
                return pl["l"]
            if pl["p"] == ["*"]:
                rl = pl["l"]
                continue
            return None
        return None

    def _expand_array_iter(self, b, t, callee, locals_, blocks):
        """`for x in [a, b]`: the array's by-value iterator is modelled as the array itself; `next` hands out its first
        element and leaves the rest behind (evaluated by the interpreter when the array is a known aggregate)."""
        st = callee.get("self_ty") or {}
        args = t["args"]
        span = {k: t.get(k) for k in ("file", "line", "exp", "macro")}
        goto = {"k": "goto", "target": t["target"], **span} if t["target"] is not None else {"k": "unreachable", **span}
        if callee["def"] == "core::iter::IntoIterator::into_iter":
            is_array = st.get("k") in ("array", "slice") and str(st.get("s", "")).startswith("[") and ";" in str(st.get("s", "")) and st.get("peel", 0) == 0
            if not is_array or len(args) != 1 or args[0]["k"] not in ("move", "copy", "const"):
                return None
            blocks[b]["stmts"].append({"k": "assign", "dst": copy.deepcopy(t["dst"]), "rv": {"k": "use", "op": copy.deepcopy(args[0])}, **span})
            blocks[b]["term"] = dict(goto, adaptor="array-into_iter")
            return []
        if st.get("adt") != "core::array::IntoIter" or st.get("peel", 0) != 0 or len(args) != 1 or args[0]["k"] not in ("move", "copy") or args[0]["pl"]["p"]:
            return None
        rl = args[0]["pl"]["l"]
        it = self._ref_target(blocks[b], rl)
        if it is None:
            return None
        blocks[b]["stmts"].append({"k": "assign", "dst": copy.deepcopy(t["dst"]), "rv": {"k": "arr_head", "pl": {"l": it, "p": []}, "site": b}, **span})
        blocks[b]["stmts"].append({"k": "assign", "dst": {"l": it, "p": []}, "rv": {"k": "arr_tail", "pl": {"l": it, "p": []}, "site": b}, **span})
        blocks[b]["term"] = dict(goto, adaptor="array-next")
        return []

    def _expand_option_take(self, b, t, callee, locals_, blocks):
        """`place.take()` on an Option borrowed in this block (`_r = &mut place; Option::take(move _r)`): the old value is
        handed out and `None` is left behind -- written as the two assignments, so that a field of a local aggregate
        stepped this way (an iterator struct's `self.pending.take()`) is followed like a plain assignment."""
        args = t["args"]
        if len(args) != 1 or args[0]["k"] not in ("move", "copy") or args[0]["pl"]["p"] or t.get("target") is None:
            return None
        rl = args[0]["pl"]["l"]
        found = None
        for s_ in blocks[b]["stmts"]:
            if s_["k"] == "assign" and s_["dst"] == {"l": rl, "p": []}:
                found = s_["rv"]
        if found is None or found.get("k") != "ref" or found.get("mut") is False:
            return None
        pl = found["pl"]
        # only places that are fields of something reached from a local or `self` (not box fields: those are events)
        if not pl["p"] or not any(isinstance(e, dict) and "f" in e for e in pl["p"]):
            return None
        tyj = (callee.get("targs") or [{}])[0]
        if tyj.get("dp", 0) or tyj.get("nd"):
            return None      # (a payload with drop glue: keep the library call)
        span = {k: t.get(k) for k in ("file", "line", "exp", "macro")}
        none = {"k": "agg", "ak": "adt", "name": "core::option::Option", "variant": "None", "vidx": 0, "fields": [], "ops": []}
        blocks[b]["stmts"].append({"k": "assign", "dst": copy.deepcopy(t["dst"]), "rv": {"k": "use", "op": {"k": "move", "pl": copy.deepcopy(pl)}}, **span})
        blocks[b]["stmts"].append({"k": "assign", "dst": copy.deepcopy(pl), "rv": none, **span})
        blocks[b]["term"] = {"k": "goto", "target": t["target"], **span, "adaptor": "option-take"}
        return []

    def _expand_option_as_ref_iter(self, b, t, callee, locals_, blocks):
        """`opt.iter()`: modelled as the `Option<&T>` it hands out once (`Some(&payload)` / `None`); `next` on it is
        expanded like `Option::into_iter`'s."""
        args = t["args"]
        if len(args) != 1 or args[0]["k"] not in ("move", "copy") or t.get("target") is None:
            return None
        span = {k: t.get(k) for k in ("file", "line", "exp", "macro")}
        cleanup = blocks[b]["cleanup"]
        goto = {"k": "goto", "target": t["target"], **span}
        dl = len(locals_)
        locals_.append({"ty": {"s": "isize", "k": "int", "hp": False, "nd": False, "dp": 0}, "name": None})
        rl = len(locals_)
        locals_.append({"ty": {"s": "&?", "k": "ref", "hp": False, "nd": False, "dp": 0}, "name": None})
        base = copy.deepcopy(args[0]["pl"])
        base["p"] = base["p"] + ["*"]
        blocks[b]["stmts"].append({"k": "assign", "dst": {"l": dl, "p": []}, "rv": {"k": "discr", "pl": copy.deepcopy(base)}, **span})
        pay = copy.deepcopy(base)
        pay["p"] = pay["p"] + [{"dc": "Some", "vi": 1}, {"f": 0, "n": "0", "of": "core::option::Option"}]
        nb0 = len(blocks)
        some = {"k": "agg", "ak": "adt", "name": "core::option::Option", "variant": "Some", "vidx": 1, "fields": ["0"], "ops": [{"k": "move", "pl": {"l": rl, "p": []}}]}
        none = {"k": "agg", "ak": "adt", "name": "core::option::Option", "variant": "None", "vidx": 0, "fields": [], "ops": []}
        blocks.append({"cleanup": cleanup, "stmts": [{"k": "assign", "dst": {"l": rl, "p": []}, "rv": {"k": "ref", "mut": False, "pl": pay}, **span},
                                                      {"k": "assign", "dst": copy.deepcopy(t["dst"]), "rv": some, **span}], "term": dict(goto)})
        blocks.append({"cleanup": cleanup, "stmts": [{"k": "assign", "dst": copy.deepcopy(t["dst"]), "rv": none, **span}], "term": dict(goto)})
        blocks.append({"cleanup": cleanup, "stmts": [], "term": {"k": "unreachable", **span}})
        blocks[b]["term"] = {"k": "switch", "discr": {"k": "move", "pl": {"l": dl, "p": []}}, "targets": [["1", nb0], ["0", nb0 + 1]], "otherwise": nb0 + 2, **span, "adaptor": "option-iter"}
        return [nb0, nb0 + 1, nb0 + 2]

    def _expand_option_iter(self, b, t, callee, locals_, blocks):
        """`opt.into_iter()` is modelled as the Option itself, and `next` on it hands the Option out and leaves None behind
        (an Option's iterator yields its payload at most once)."""
        st = callee.get("self_ty") or {}
        args = t["args"]
        span = {k: t.get(k) for k in ("file", "line", "exp", "macro")}
        goto = {"k": "goto", "target": t["target"], **span} if t["target"] is not None else {"k": "unreachable", **span}
        if callee["def"] == "core::iter::IntoIterator::into_iter":
            if st.get("adt") != "core::option::Option" or st.get("peel", 0) != 0 or len(args) != 1 or args[0]["k"] not in ("move", "copy"):
                return None
            blocks[b]["stmts"].append({"k": "assign", "dst": copy.deepcopy(t["dst"]), "rv": {"k": "use", "op": copy.deepcopy(args[0])}, **span})
            blocks[b]["term"] = dict(goto, adaptor="option-into_iter")
            return []
        if st.get("adt") not in ("core::option::IntoIter", "core::option::Iter") or st.get("peel", 0) != 0 or len(args) != 1 or args[0]["k"] not in ("move", "copy") or args[0]["pl"]["p"]:
            return None
        # the receiver is `&mut it` taken in this block
        rl = args[0]["pl"]["l"]
        it = self._ref_target(blocks[b], rl)
        if it is None:
            return None
        none = {"k": "agg", "ak": "adt", "name": "core::option::Option", "variant": "None", "vidx": 0, "fields": [], "ops": []}
        blocks[b]["stmts"].append({"k": "assign", "dst": copy.deepcopy(t["dst"]), "rv": {"k": "use", "op": {"k": "move", "pl": {"l": it, "p": []}}}, **span})
        blocks[b]["stmts"].append({"k": "assign", "dst": {"l": it, "p": []}, "rv": none, **span})
        blocks[b]["term"] = dict(goto, adaptor="option-next")
        return []

    def _expand_try_for_each(self, b, t, callee, locals_, blocks):
        """`iter.try_for_each(f)` with a statically known closure and R = Option<()> / Result<(), E> / ControlFlow<B>:
        loop { match Iterator::next(iter) { Some(x) => { r = f(x); if r is the short-circuit variant { break r } }, None => break R::from_output(()) } }"""
        args = t["args"]
        if len(args) != 2 or args[0]["k"] not in ("move", "copy") or args[0]["pl"]["p"]:
            return None
        fty = self._op_ty(args[1], locals_)
        if fty is None or fty.get("k") != "closure" or self.facts.fn(fty["closure"]) is None:
            return None
        targs = callee.get("targs") or []
        rty = targs[2] if len(targs) == 3 else {}
        radt = rty.get("adt") if rty.get("peel", 0) == 0 else None
        unit = {"k": "const", "ty": {"s": "()", "k": "tuple"}, "desc": "()"}
        # (discriminant of the variant that stops the walk, value when the walk runs to its end)
        if radt == "core::option::Option":
            stop, done_rv = "0", {"k": "agg", "ak": "adt", "name": radt, "variant": "Some", "vidx": 1, "fields": ["0"], "ops": [unit]}
        elif radt == "core::result::Result":
            stop, done_rv = "1", {"k": "agg", "ak": "adt", "name": radt, "variant": "Ok", "vidx": 0, "fields": ["0"], "ops": [unit]}
        elif radt == "core::ops::ControlFlow":
            stop, done_rv = "1", {"k": "agg", "ak": "adt", "name": radt, "variant": "Continue", "vidx": 0, "fields": ["0"], "ops": [unit]}
        else:
            return None
        span = {k: t.get(k) for k in ("file", "line", "exp", "macro")}
        unk = {"s": "?", "k": "other", "hp": False, "nd": False, "dp": 0}
        itref = args[0]["pl"]["l"]     # already `&mut iter`

        def new_local(ty):
            locals_.append({"ty": ty, "name": None})
            return len(locals_) - 1
        intty = {"s": "isize", "k": "int", "hp": False, "nd": False, "dp": 0}
        ol = new_local({"s": "Option<?>", "k": "adt", "adt": "core::option::Option", "peel": 0, "hp": False, "nd": False, "dp": 0})
        dl = new_local(intty)
        pl_ = new_local(unk)
        tl = new_local({"s": "(?,)", "k": "tuple", "hp": False, "nd": False, "dp": 0})
        rl = new_local(rty)
        rdl = new_local(intty)
        fl = new_local(fty)
        frl = new_local({"s": "&mut ?", "k": "refmut", "hp": False, "nd": False, "dp": 0})
        cf = self.facts.fn(fty["closure"])
        if cf.argc >= 2:
            ity = cf.locals[2]["ty"]
            locals_[ol]["ty"] = dict(locals_[ol]["ty"], s="core::option::Option<%s>" % ity.get("s", "?"))
            locals_[pl_]["ty"] = ity
        cleanup = blocks[b]["cleanup"]
        hdr = len(blocks)
        sw, body, test, brk, done = hdr + 1, hdr + 2, hdr + 3, hdr + 4, hdr + 5
        itty = (t.get("argtys") or [unk])[0]
        next_callee = {"def": "core::iter::Iterator::next", "full": "core::iter::Iterator::next", "crate": "core", "args": [], "targs": [], "local": False,
                       "trait": "core::iter::Iterator", "self_ty": callee.get("self_ty") or unk}
        goto_t = {"k": "goto", "target": t["target"], **span} if t["target"] is not None else {"k": "unreachable", **span}
        blocks.append({"cleanup": cleanup, "stmts": [],
                       "term": {"k": "call", "callee": next_callee, "fnop": {"k": "const", "ty": unk, "desc": "next"}, "args": [{"k": "copy", "pl": {"l": itref, "p": []}}],
                                "argtys": [itty], "dst": {"l": ol, "p": []}, "target": sw, "unwind": t["unwind"], **span, "macro": "Desugaring(ForLoop)"}})
        blocks.append({"cleanup": cleanup, "stmts": [{"k": "assign", "dst": {"l": dl, "p": []}, "rv": {"k": "discr", "pl": {"l": ol, "p": []}}, **span}],
                       "term": {"k": "switch", "discr": {"k": "move", "pl": {"l": dl, "p": []}}, "targets": [["0", done], ["1", body]], "otherwise": done, **span}})
        payload = {"k": "move", "pl": {"l": ol, "p": [{"dc": "Some", "vi": 1}, {"f": 0, "n": "0", "of": ""}]}}
        blocks.append({"cleanup": cleanup, "stmts": [
            {"k": "assign", "dst": {"l": pl_, "p": []}, "rv": {"k": "use", "op": payload}, **span},
            {"k": "assign", "dst": {"l": tl, "p": []}, "rv": {"k": "agg", "ak": "tuple", "name": "", "variant": "", "vidx": 0, "fields": [], "ops": [{"k": "move", "pl": {"l": pl_, "p": []}}]}, **span},
            {"k": "assign", "dst": {"l": frl, "p": []}, "rv": {"k": "ref", "mut": True, "pl": {"l": fl, "p": []}}, **span}],
            "term": {"k": "call", "callee": {"def": "core::ops::FnMut::call_mut", "full": "core::ops::FnMut::call_mut", "crate": "core", "args": [], "targs": [], "local": False, "trait": "core::ops::FnMut"},
                     "fnop": {"k": "const", "ty": unk, "desc": "call_mut"}, "args": [{"k": "move", "pl": {"l": frl, "p": []}}, {"k": "move", "pl": {"l": tl, "p": []}}],
                     "argtys": [fty, {"s": "(?,)", "k": "tuple"}], "dst": {"l": rl, "p": []}, "target": test, "unwind": t["unwind"], **span}})
        blocks.append({"cleanup": cleanup, "stmts": [{"k": "assign", "dst": {"l": rdl, "p": []}, "rv": {"k": "discr", "pl": {"l": rl, "p": []}}, **span}],
                       "term": {"k": "switch", "discr": {"k": "move", "pl": {"l": rdl, "p": []}}, "targets": [[stop, brk]], "otherwise": hdr, **span}})
        blocks.append({"cleanup": cleanup, "stmts": [{"k": "assign", "dst": copy.deepcopy(t["dst"]), "rv": {"k": "use", "op": {"k": "move", "pl": {"l": rl, "p": []}}}, **span}], "term": dict(goto_t)})
        blocks.append({"cleanup": cleanup, "stmts": [{"k": "assign", "dst": copy.deepcopy(t["dst"]), "rv": done_rv, **span}], "term": dict(goto_t)})
        blocks[b]["stmts"].append({"k": "assign", "dst": {"l": fl, "p": []}, "rv": {"k": "use", "op": copy.deepcopy(args[1])}, **span})
        blocks[b]["term"] = {"k": "goto", "target": hdr, **span, "adaptor": "try_for_each"}
        return [hdr, sw, body, test, brk, done]

    OPT_ADAPTORS = {
        "core::option::Option::<T>::map": "map",
        "core::option::Option::<T>::filter": "filter",
        "core::option::Option::<T>::and_then": "and_then",
        "core::option::Option::<T>::is_some_and": "is_some_and",
        "core::bool::<impl bool>::then": "then",
    }

    def _expand_then_some(self, b, t, callee, locals_, blocks):
        """`cond.then_some(v)`  ==>  if cond { Some(v) } else { None }  (v is dropped by the callee otherwise;
        only values whose drop runs no user code are expanded)"""
        args = t["args"]
        if len(args) != 2:
            return None
        vty = self._op_ty(args[1], locals_) or {}
        if vty.get("dp", 0):
            return None
        span = {k: t.get(k) for k in ("file", "line", "exp", "macro")}
        cleanup = blocks[b]["cleanup"]
        nb0 = len(blocks)
        goto = {"k": "goto", "target": t["target"], **span} if t["target"] is not None else {"k": "unreachable", **span}
        some = {"k": "agg", "ak": "adt", "name": "core::option::Option", "variant": "Some", "vidx": 1, "fields": ["0"], "ops": [copy.deepcopy(args[1])]}
        none = {"k": "agg", "ak": "adt", "name": "core::option::Option", "variant": "None", "vidx": 0, "fields": [], "ops": []}
        blocks.append({"cleanup": cleanup, "stmts": [{"k": "assign", "dst": copy.deepcopy(t["dst"]), "rv": some, **span}], "term": dict(goto)})
        blocks.append({"cleanup": cleanup, "stmts": [{"k": "assign", "dst": copy.deepcopy(t["dst"]), "rv": none, **span}], "term": dict(goto)})
        blocks[b]["term"] = {"k": "switch", "discr": copy.deepcopy(args[0]), "targets": [["0", nb0 + 1]], "otherwise": nb0, **span, "adaptor": "then_some"}
        return [nb0, nb0 + 1]

    def _expand_option_adaptor(self, b, t, callee, locals_, blocks):
        kind = self.OPT_ADAPTORS[callee["def"]]
        args = t["args"]
        if len(args) != 2 or args[0]["k"] not in ("move", "copy"):
            return None
        fty = self._op_ty(args[1], locals_)
        if fty is None or fty.get("k") not in ("closure", "fndef"):
            return None
        if fty.get("k") == "fndef" and self.facts.fn(fty["fndef"]) is None and not fty["fndef"].startswith("core::num::NonZero"):
            return None   # foreign fn item: keep the library call (NonZero::new / get are expanded: the rules know them)
        span = {k: t.get(k) for k in ("file", "line", "exp", "macro")}
        unk = {"s": "?", "k": "other", "hp": False, "nd": False, "dp": 0}
        cleanup = blocks[b]["cleanup"]
        recv = args[0]["pl"]

        def new_local(ty=unk):
            locals_.append({"ty": ty, "name": None})
            return len(locals_) - 1
        dl = new_local({"s": "isize", "k": "int", "hp": False, "nd": False, "dp": 0})
        xl = new_local()
        tl = new_local({"s": "(?,)", "k": "tuple", "hp": False, "nd": False, "dp": 0})
        rl = new_local()
        refl = new_local({"s": "&?", "k": "ref", "hp": False, "nd": False, "dp": 0})
        none = {"k": "agg", "ak": "adt", "name": "core::option::Option", "variant": "None", "vidx": 0, "fields": [], "ops": []}

        def some(op):
            return {"k": "agg", "ak": "adt", "name": "core::option::Option", "variant": "Some", "vidx": 1, "fields": ["0"], "ops": [op]}

        def mv(l):
            return {"k": "move", "pl": {"l": l, "p": []}}

        def assign(dst, rv):
            return {"k": "assign", "dst": dst, "rv": rv, **span}

        def goto_target():
            return {"k": "goto", "target": t["target"], **span} if t["target"] is not None else {"k": "unreachable", **span}

        def call_f(arg_ops, dst_local, target):
            return {"k": "call", "callee": {"def": "core::ops::FnOnce::call_once", "full": "core::ops::FnOnce::call_once", "crate": "core", "args": [], "targs": [], "local": False, "trait": "core::ops::FnOnce"},
                    "fnop": {"k": "const", "ty": unk, "desc": "call_once"}, "args": [copy.deepcopy(args[1]), mv(tl)], "argtys": [fty, {"s": "(?,)", "k": "tuple"}],
                    "dst": {"l": dst_local, "p": []}, "target": target, "unwind": t["unwind"], **span}

        def tuple_of(ops):
            return {"k": "agg", "ak": "tuple", "name": "", "variant": "", "vidx": 0, "fields": [], "ops": ops}

        dst = t["dst"]
        nb0 = len(blocks)
        if kind == "then":
            # recv is a bool
            b_true = {"cleanup": cleanup, "stmts": [assign({"l": tl, "p": []}, tuple_of([]))], "term": call_f([], rl, nb0 + 1)}
            b_wrap = {"cleanup": cleanup, "stmts": [assign(copy.deepcopy(dst), some(mv(rl)))], "term": goto_target()}
            b_false = {"cleanup": cleanup, "stmts": [assign(copy.deepcopy(dst), none)], "term": goto_target()}
            blocks.extend([b_true, b_wrap, b_false])
            blocks[b]["term"] = {"k": "switch", "discr": copy.deepcopy(args[0]), "targets": [["0", nb0 + 2]], "otherwise": nb0, **span, "adaptor": kind}
            return [nb0, nb0 + 1, nb0 + 2]
        payload = copy.deepcopy(recv)
        payload["p"] = payload["p"] + [{"dc": "Some", "vi": 1}, {"f": 0, "n": "0", "of": ""}]
        b_none_rv = {"k": "use", "op": {"k": "const", "ty": {"s": "bool", "k": "bool"}, "int": "0", "desc": "false"}} if kind == "is_some_and" else none
        b_none = {"cleanup": cleanup, "stmts": [assign(copy.deepcopy(dst), b_none_rv)], "term": goto_target()}
        if kind == "filter":
            stmts = [assign({"l": refl, "p": []}, {"k": "ref", "mut": False, "pl": payload}), assign({"l": tl, "p": []}, tuple_of([mv(refl)]))]
            b_some = {"cleanup": cleanup, "stmts": stmts, "term": call_f(None, rl, nb0 + 2)}
            b_test = {"cleanup": cleanup, "stmts": [], "term": {"k": "switch", "discr": mv(rl), "targets": [["0", nb0]], "otherwise": nb0 + 3, **span}}
            b_keep = {"cleanup": cleanup, "stmts": [assign(copy.deepcopy(dst), {"k": "use", "op": copy.deepcopy(args[0])})], "term": goto_target()}
            blocks.extend([b_none, b_some, b_test, b_keep])
            new = [nb0, nb0 + 1, nb0 + 2, nb0 + 3]
        else:
            stmts = [assign({"l": xl, "p": []}, {"k": "use", "op": {"k": "move", "pl": payload}}), assign({"l": tl, "p": []}, tuple_of([mv(xl)]))]
            b_some = {"cleanup": cleanup, "stmts": stmts, "term": call_f(None, rl, nb0 + 2)}
            if kind == "map":
                fin = assign(copy.deepcopy(dst), some(mv(rl)))
            else:
                fin = assign(copy.deepcopy(dst), {"k": "use", "op": mv(rl)})
            b_fin = {"cleanup": cleanup, "stmts": [fin], "term": goto_target()}
            blocks.extend([b_none, b_some, b_fin])
            new = [nb0, nb0 + 1, nb0 + 2]
        blocks[b]["stmts"].append(assign({"l": dl, "p": []}, {"k": "discr", "pl": copy.deepcopy(recv)}))
        blocks[b]["term"] = {"k": "switch", "discr": mv(dl), "targets": [["0", nb0], ["1", nb0 + 1]], "otherwise": nb0, **span, "adaptor": kind}
        return new

    def _expand_cell(self, b, t, callee, locals_, blocks):
        """Cell::update(f) = set(f(get())), Cell::replace(v) = { old = get(); set(v); old }, Cell::take() = replace(0)
        for Cell<usize>, expressed with the get/set calls the rules already understand."""
        d = callee["def"]
        m = d.rsplit("::", 1)[1]
        args = t["args"]
        span = {k: t.get(k) for k in ("file", "line", "exp", "macro")}
        unk = {"s": "?", "k": "other", "hp": False, "nd": False, "dp": 0}
        usz = {"s": "usize", "k": "int", "hp": False, "nd": False, "dp": 0}
        targ = (callee.get("targs") or [{}])[0]
        if targ.get("s") != "usize" or not args or args[0]["k"] not in ("copy", "move"):
            return None
        cleanup = blocks[b]["cleanup"]

        def new_local(ty):
            locals_.append({"ty": ty, "name": None})
            return len(locals_) - 1

        def mk_callee(name):
            return {"def": "core::cell::Cell::<T>::" + name, "full": "core::cell::Cell::<usize>::" + name, "crate": "core", "args": ["usize"], "targs": [usz], "local": False}

        cell = args[0]
        old = new_local(usz)
        unit = new_local({"s": "()", "k": "tuple", "hp": False, "nd": False, "dp": 0})
        nb0 = len(blocks)
        if m == "update":
            fty = self._op_ty(args[1], locals_)
            if fty is None or fty.get("k") not in ("closure", "fndef"):
                return None
            tl = new_local({"s": "(usize,)", "k": "tuple", "hp": False, "nd": False, "dp": 0})
            nv = new_local(usz)
            # b: old = get(cell) -> nb0 ; nb0: nv = f(old) -> nb0+1 ; nb0+1: set(cell, nv) -> target
            blocks.append({"cleanup": cleanup, "stmts": [{"k": "assign", "dst": {"l": tl, "p": []}, "rv": {"k": "agg", "ak": "tuple", "name": "", "variant": "", "vidx": 0, "fields": [], "ops": [{"k": "move", "pl": {"l": old, "p": []}}]}, **span}],
                           "term": {"k": "call", "callee": {"def": "core::ops::FnOnce::call_once", "full": "core::ops::FnOnce::call_once", "crate": "core", "args": [], "targs": [], "local": False, "trait": "core::ops::FnOnce"},
                                    "fnop": {"k": "const", "ty": unk, "desc": "call_once"}, "args": [copy.deepcopy(args[1]), {"k": "move", "pl": {"l": tl, "p": []}}], "argtys": [fty, {"s": "(usize,)", "k": "tuple"}],
                                    "dst": {"l": nv, "p": []}, "target": nb0 + 1, "unwind": t["unwind"], **span}})
            blocks.append({"cleanup": cleanup, "stmts": [], "term": {"k": "call", "callee": mk_callee("set"), "fnop": {"k": "const", "ty": unk, "desc": "set"},
                                                                 "args": [copy.deepcopy(cell), {"k": "move", "pl": {"l": nv, "p": []}}], "argtys": [t.get("argtys", [unk])[0], usz],
                                                                 "dst": copy.deepcopy(t["dst"]), "target": t["target"], "unwind": t["unwind"], **span}})
            blocks[b]["term"] = {"k": "call", "callee": mk_callee("get"), "fnop": {"k": "const", "ty": unk, "desc": "get"}, "args": [copy.deepcopy(cell)],
                                 "argtys": [t.get("argtys", [unk])[0]], "dst": {"l": old, "p": []}, "target": nb0, "unwind": t["unwind"], **span, "adaptor": "Cell::update"}
            return [nb0, nb0 + 1]
        if m in ("replace", "take"):
            newv = copy.deepcopy(args[1]) if m == "replace" else {"k": "const", "ty": usz, "int": "0", "size": 8, "desc": "0_usize"}
            # b: old = get(cell) -> nb0 ; nb0: set(cell, newv) -> nb0+1 ; nb0+1: dst = old -> target
            blocks.append({"cleanup": cleanup, "stmts": [], "term": {"k": "call", "callee": mk_callee("set"), "fnop": {"k": "const", "ty": unk, "desc": "set"},
                                                                 "args": [copy.deepcopy(cell), newv], "argtys": [t.get("argtys", [unk])[0], usz],
                                                                 "dst": {"l": unit, "p": []}, "target": nb0 + 1, "unwind": t["unwind"], **span}})
            blocks.append({"cleanup": cleanup, "stmts": [{"k": "assign", "dst": copy.deepcopy(t["dst"]), "rv": {"k": "use", "op": {"k": "move", "pl": {"l": old, "p": []}}}, **span}],
                           "term": {"k": "goto", "target": t["target"], **span} if t["target"] is not None else {"k": "unreachable", **span}})
            blocks[b]["term"] = {"k": "call", "callee": mk_callee("get"), "fnop": {"k": "const", "ty": unk, "desc": "get"}, "args": [copy.deepcopy(cell)],
                                 "argtys": [t.get("argtys", [unk])[0]], "dst": {"l": old, "p": []}, "target": nb0, "unwind": t["unwind"], **span, "adaptor": "Cell::" + m}
            return [nb0, nb0 + 1]
        return None

    def _expand_rev(self, b, t, callee, locals_, blocks):
        """`it.rev()` over an iterator type of this crate that implements DoubleEndedIterator: the `Rev` wrapper is modelled
        as the iterator itself (its only field), and `next` on it is the crate's own `next_back` -- which is then followed
        like any other `next` of the crate."""
        if callee is None or not t["args"]:
            return False
        d = callee["def"]
        span = {k: t.get(k) for k in ("file", "line", "exp", "macro")}
        crate = self.facts.crate + "::"

        def inner_of_rev(ty):
            if ty and ty.get("adt") == "core::iter::Rev" and ty.get("peel", 0) == 0 and ty.get("args"):
                i = ty["args"][0]
                if (i.get("adt") or "").startswith(crate) and i.get("peel", 0) == 0 and self._next_back_of(i.get("adt")) is not None:
                    return i
            return None
        a0 = t["args"][0]
        if d == "core::iter::Iterator::rev" or d == "core::iter::IntoIterator::into_iter":
            dty = locals_[t["dst"]["l"]]["ty"] if not t["dst"]["p"] else None
            inner = inner_of_rev(dty)
            aty = self._op_ty(a0, locals_)
            if inner is None and d == "core::iter::Iterator::rev" and aty is not None and (aty.get("adt") or "").startswith(crate) \
                    and aty.get("peel", 0) == 0 and self._next_back_of(aty.get("adt")) is not None and (callee.get("self_ty") or {}).get("adt") == aty.get("adt"):
                inner = aty     # the destination was already retyped by a later stage looked at first
            if inner is None or t["target"] is None or a0.get("k") != "move":
                return False
            if aty is None or not (aty.get("adt") == inner.get("adt") or inner_of_rev(aty) is not None):
                return False
            blocks[b]["stmts"].append({"k": "assign", "dst": copy.deepcopy(t["dst"]), "rv": {"k": "use", "op": copy.deepcopy(a0)}, **span})
            blocks[b]["term"] = {"k": "goto", "target": t["target"], **span, "adaptor": "rev"}
            # the wrapper local now holds the iterator itself
            locals_[t["dst"]["l"]] = dict(locals_[t["dst"]["l"]], ty=copy.deepcopy(inner))
            if not a0["pl"]["p"] and inner_of_rev(aty) is not None:
                locals_[a0["pl"]["l"]] = dict(locals_[a0["pl"]["l"]], ty=copy.deepcopy(inner))
            self._rework.append(b)
            return True
        if d == "core::iter::Iterator::next" and not callee.get("_rev_done"):
            st = callee.get("self_ty")
            inner = inner_of_rev(st)
            if inner is None:
                return False
            f = self._next_back_of(inner.get("adt"))
            t["callee"] = {"def": "core::iter::DoubleEndedIterator::next_back", "crate": "core", "full": "<%s as core::iter::DoubleEndedIterator>::next_back" % inner.get("s"),
                           "local": False, "args": [inner.get("s")], "targs": [inner], "trait": "core::iter::DoubleEndedIterator", "self_ty": inner,
                           "resolved": f.path, "resolved_crate": self.facts.crate, "rk": "item", "_rev_done": True}
            self._rework.append(b)
            return True
        return False

    def _next_back_of(self, adt):
        for f in self.facts.fns.values():
            if f.f.get("impl_trait") == "core::iter::DoubleEndedIterator" and f.name == "next_back" and (f.f.get("impl_self") or {}).get("adt") == adt:
                return f
        return None

    def _expand_adaptor(self, b, t, callee, locals_, blocks):
        if self._expand_rev(b, t, callee, locals_, blocks):
            return []
        if callee is not None and callee["def"] in ("core::cell::Cell::<T>::update", "core::cell::Cell::<T>::replace", "core::cell::Cell::<T>::take"):
            r = self._expand_cell(b, t, callee, locals_, blocks)
            if r is not None:
                return r
        if callee is not None and callee["def"] == "core::mem::drop" and len(t["args"]) == 1 and t["args"][0].get("k") == "move" and not t["args"][0]["pl"]["p"]:
            # `drop(x)` of a value whose drop glue runs an effectful Drop impl of this crate: make it the drop terminator it is
            aty = locals_[t["args"][0]["pl"]["l"]]["ty"]
            gts = self._guard_types(aty)
            if gts and not (aty.get("adt") in gts and aty.get("peel", 0) == 0) and not self.expand_guard_containers:
                self.lazy_unexpanded.append((self._cur, b, "`drop` of a `%s` runs the Drop impl of %s (a type of this crate with side effects) once per element from inside library code" % (aty.get("s", "?")[:80], gts[0])))
            elif gts:
                span = {k: t.get(k) for k in ("file", "line", "exp", "macro")}
                blocks[b]["stmts"].append({"k": "assign", "dst": copy.deepcopy(t["dst"]), "rv": {"k": "use", "op": {"k": "const", "ty": {"s": "()", "k": "tuple"}, "desc": "()"}}, **span})
                blocks[b]["term"] = {"k": "drop", "pl": copy.deepcopy(t["args"][0]["pl"]), "ty": aty, "target": t["target"], "unwind": t["unwind"], **span, "via_mem_drop": True}
                self._rework.append(b)
                return []
        if callee is not None and callee["def"] in ("core::ops::Try::branch", "core::ops::FromResidual::from_residual") and (callee.get("self_ty") or {}).get("adt") == "core::result::Result" \
                and (callee.get("self_ty") or {}).get("peel", 0) == 0:
            r = self._expand_result_try(b, t, callee, locals_, blocks)
            if r is not None:
                return r
        if callee is not None and callee["def"] in self.VARIANT_MAPS:
            r = self._expand_variant_map(b, t, callee, locals_, blocks)
            if r is not None:
                return r
        if callee is not None and callee["def"] in self.VARIANT_TESTS:
            r = self._expand_variant_test(b, t, callee, locals_, blocks)
            if r is not None:
                return r
        if callee is not None and callee["def"] in ("core::cmp::PartialEq::eq", "core::cmp::PartialEq::ne") and (callee.get("self_ty") or {}).get("k") == "tuple":
            r = self._expand_tuple_eq(b, t, callee, locals_, blocks)
            if r is not None:
                return r
        if callee is not None and callee["def"] == "core::cmp::PartialEq::ne" and callee.get("resolved") in (None, "core::cmp::PartialEq::ne"):
            r = self._expand_ne(b, t, callee, locals_, blocks)
            if r is not None:
                return r
        if callee is not None and callee["def"] == "core::iter::Iterator::for_each":
            return self._expand_for_each(b, t, callee, locals_, blocks)
        if callee is not None and callee["def"] == "core::option::Option::<T>::take":
            r = self._expand_option_take(b, t, callee, locals_, blocks)
            if r is not None:
                return r
        if callee is not None and callee["def"] == "core::option::Option::<T>::iter":
            r = self._expand_option_as_ref_iter(b, t, callee, locals_, blocks)
            if r is not None:
                return r
        if callee is not None and callee["def"] in ("core::iter::IntoIterator::into_iter", "core::iter::Iterator::next"):
            r = self._expand_option_iter(b, t, callee, locals_, blocks)
            if r is not None:
                return r
            r = self._expand_array_iter(b, t, callee, locals_, blocks)
            if r is not None:
                return r
        if callee is not None and callee["def"] == "core::iter::Iterator::try_for_each":
            r = self._expand_try_for_each(b, t, callee, locals_, blocks)
            if r is not None:
                return r
        if callee is not None and callee["def"] == "core::iter::Iterator::next":
            r = self._expand_lazy_next(b, t, callee, locals_, blocks)
            if r is not None:
                return r
        if callee is not None and callee["def"] == "core::iter::Iterator::find" and self._in_crate_iter_next:
            r = self._expand_find(b, t, callee, locals_, blocks)
            if r is not None:
                return r
        if callee is not None and callee["def"] == "core::iter::Iterator::unzip":
            r = self._expand_unzip(b, t, callee, locals_, blocks)
            if r is not None:
                return r
        if callee is not None and callee["def"] == "core::iter::Iterator::fold":
            r = self._expand_fold(b, t, callee, locals_, blocks)
            if r is not None:
                return r
        if callee is not None and callee["def"] in ("core::iter::Iterator::collect", "core::iter::Extend::extend"):
            r = self._expand_lazy_collect(b, t, callee, locals_, blocks)
            if r is not None:
                return r
        if callee is not None:
            self._note_unexpanded_consumer(b, t, callee, locals_, blocks)
        if callee is not None and callee["def"] in self.OPT_ADAPTORS:
            return self._expand_option_adaptor(b, t, callee, locals_, blocks)
        if callee is not None and callee["def"] == "core::bool::<impl bool>::then_some":
            return self._expand_then_some(b, t, callee, locals_, blocks)
        if callee is None or callee["def"] not in self.ADAPTORS:
            return None
        d = callee["def"]
        args = t["args"]
        if not args or args[0]["k"] not in ("move", "copy"):
            return None
        fidx = len(args) - 1
        fty = self._op_ty(args[fidx], locals_)
        if fty is None or fty.get("k") not in ("closure", "fndef"):
            return None
        span = {k: t.get(k) for k in ("file", "line", "exp", "macro")}
        recv = args[0]["pl"]
        unk = {"s": "?", "k": "other", "hp": False, "nd": False, "dp": 0}
        dl = len(locals_)
        locals_.append({"ty": {"s": "isize", "k": "int", "hp": False, "nd": False, "dp": 0}, "name": None})
        pl_ = len(locals_)
        locals_.append({"ty": unk, "name": None})
        tl = len(locals_)
        locals_.append({"ty": {"s": "(?,)", "k": "tuple", "hp": False, "nd": False, "dp": 0}, "name": None})

        def proj(variant, vi):
            p = copy.deepcopy(recv)
            p["p"] = p["p"] + [{"dc": variant, "vi": vi}, {"f": 0, "n": "0", "of": ""}]
            return {"k": "move", "pl": p}

        def call_block(payload_op, fidx=fidx):
            fty = self._op_ty(args[fidx], locals_)
            stmts = []
            if payload_op is not None:
                stmts.append({"k": "assign", "dst": {"l": pl_, "p": []}, "rv": {"k": "use", "op": payload_op}, **span})
                stmts.append({"k": "assign", "dst": {"l": tl, "p": []}, "rv": {"k": "agg", "ak": "tuple", "name": "", "variant": "", "vidx": 0, "fields": [], "ops": [{"k": "move", "pl": {"l": pl_, "p": []}}]}, **span})
            else:
                stmts.append({"k": "assign", "dst": {"l": tl, "p": []}, "rv": {"k": "agg", "ak": "tuple", "name": "", "variant": "", "vidx": 0, "fields": [], "ops": []}, **span})
            term = {"k": "call", "callee": {"def": "core::ops::FnOnce::call_once", "full": "core::ops::FnOnce::call_once", "crate": "core", "args": [], "targs": [], "local": False, "trait": "core::ops::FnOnce"},
                    "fnop": {"k": "const", "ty": unk, "desc": "call_once"}, "args": [copy.deepcopy(args[fidx]), {"k": "move", "pl": {"l": tl, "p": []}}],
                    "argtys": [fty, {"s": "(?,)", "k": "tuple"}], "dst": copy.deepcopy(t["dst"]), "target": t["target"], "unwind": t["unwind"], **span}
            return {"cleanup": blocks[b]["cleanup"], "stmts": stmts, "term": term}

        def assign_block(op):
            return {"cleanup": blocks[b]["cleanup"], "stmts": [{"k": "assign", "dst": copy.deepcopy(t["dst"]), "rv": {"k": "use", "op": op}, **span}],
                    "term": {"k": "goto", "target": t["target"], **span} if t["target"] is not None else {"k": "unreachable", **span}}

        nb0 = len(blocks)
        if d == "core::result::Result::<T, E>::unwrap_or_else":
            ok = assign_block(proj("Ok", 0))
            err = call_block(proj("Err", 1))
            blocks.extend([ok, err])
            sw = [["0", nb0]]
            other = nb0 + 1
        elif d == "core::option::Option::<T>::map_or":
            none = assign_block(copy.deepcopy(args[1]))
            some = call_block(proj("Some", 1))
            blocks.extend([none, some])
            sw = [["0", nb0]]
            other = nb0 + 1
        elif d in ("core::option::Option::<T>::map_or_else", "core::result::Result::<T, E>::map_or_else"):
            # map_or_else(default, f): both arms are calls
            for i in (1, 2):
                ty_i = self._op_ty(args[i], locals_) if len(args) == 3 else None
                if ty_i is None or ty_i.get("k") not in ("closure", "fndef"):
                    return None
            if d.startswith("core::option"):
                none = call_block(None, 1)
                some = call_block(proj("Some", 1), 2)
                blocks.extend([none, some])
            else:
                ok = call_block(proj("Ok", 0), 2)
                err = call_block(proj("Err", 1), 1)
                blocks.extend([ok, err])
            sw = [["0", nb0]]
            other = nb0 + 1
        elif d == "core::option::Option::<T>::or_else":
            some = assign_block(copy.deepcopy(args[0]))
            none = call_block(None)
            blocks.extend([some, none])
            sw = [["1", nb0]]
            other = nb0 + 1
        else:  # Option::unwrap_or_else
            some = assign_block(proj("Some", 1))
            none = call_block(None)
            blocks.extend([some, none])
            sw = [["1", nb0]]
            other = nb0 + 1
        blocks[b]["stmts"].append({"k": "assign", "dst": {"l": dl, "p": []}, "rv": {"k": "discr", "pl": copy.deepcopy(recv)}, **span})
        blocks[b]["term"] = {"k": "switch", "discr": {"k": "move", "pl": {"l": dl, "p": []}}, "targets": sw, "otherwise": other, **span, "adaptor": d}
        return [nb0, nb0 + 1]


    # ------------------------------------------------ lazy iterator pipelines with effectful closures
    # `iter.filter(p).filter_map(f).collect()` runs p and f inside library code.  When such a closure has
    # effects (writes through pointers, moves out of boxes, drops user values, writes tables ...), the
    # pipeline is expanded into the loop it abbreviates so that the closure bodies are inlined at the place
    # where they run.  Pipelines of pure closures keep their summarised treatment in the interpreter.
    LAZY_STAGES = {
        "core::iter::Iterator::filter": "filter", "core::iter::Iterator::map": "map", "core::iter::Iterator::filter_map": "filter_map",
        "core::iter::Iterator::inspect": "inspect", "core::iter::Iterator::copied": "copied", "core::iter::Iterator::cloned": "copied",
    }
    LAZY_IDENTITY = ("core::iter::IntoIterator::into_iter", "core::iter::Iterator::by_ref", "core::iter::Iterator::fuse")
    EFFECT_CALLS = (
        ("core::cell::Cell::<T>::", ("set", "replace", "update", "take", "swap")),
        ("core::ptr::", ("read", "write", "replace", "drop_in_place", "copy", "copy_nonoverlapping", "swap", "write_bytes")),
        ("core::ptr::mut_ptr::<impl *mut T>::", ("read", "write", "replace", "drop_in_place", "copy_from", "copy_to", "copy_from_nonoverlapping", "copy_to_nonoverlapping", "swap", "write_bytes")),
        ("core::ptr::const_ptr::<impl *const T>::", ("read", "copy_to", "copy_to_nonoverlapping")),
        ("core::mem::", ("replace", "take", "swap", "forget", "drop")),
        ("core::mem::MaybeUninit::<T>::", ("assume_init_read", "assume_init_drop", "write", "assume_init")),
        ("core::mem::ManuallyDrop::<T>::", ("drop", "take", "into_inner")),
        ("core::cell::RefCell::<T>::", ("borrow_mut", "replace", "take", "swap", "replace_with", "try_borrow_mut", "get_mut", "as_ptr")),
        ("alloc::vec::Vec::<T", ("push", "pop", "insert", "remove", "clear", "truncate", "drain", "retain", "append", "extend_from_slice", "swap_remove", "dedup", "resize")),
        ("alloc::collections::VecDeque::<T", ("push_back", "push_front", "pop_back", "pop_front", "clear", "drain", "retain", "append")),
        ("alloc::alloc::", ("dealloc", "alloc", "realloc")),
        ("core::alloc::Allocator::", ("deallocate", "allocate", "grow", "shrink")),
        ("alloc::boxed::Box::<T", ("new", "from_raw", "new_uninit")),
    )
    HASH_WRITERS = ("insert", "remove", "clear", "entry", "extract_if", "retain", "drain", "get_mut", "iter_mut", "values_mut", "remove_entry",
                    "or_insert", "or_default", "and_modify", "or_insert_with", "take", "replace", "extend")

    INT_REFMUT = ("&mut usize", "&mut isize", "&mut u8", "&mut u16", "&mut u32", "&mut u64", "&mut i32", "&mut i64", "&mut bool")

    def _effectful(self, fty, acc=None):
        """Does calling this closure / fn item do anything but compute a value?
        With `acc` (a set): stores through a captured `&mut <integer>` are not counted; the indices of those captures are added
        to `acc` and the caller checks at the closure's creation site that each is a borrow of a plain local (a tally)."""
        path = fty.get("closure") or fty.get("fndef")
        if path is None:
            return True
        cache = self.__dict__.setdefault("_eff_cache" if acc is None else "_eff_cache_acc", {})
        if path in cache:
            if acc is not None:
                acc.update(cache[path][1])
                return cache[path][0]
            return cache[path]
        f = self.facts.fn(path)
        if f is None:
            cache[path] = False if acc is None else (False, set())    # foreign fn item (Option::is_some, Clone::clone of a Copy key ...): library code, assumption A2
            return False
        cache[path] = True if acc is None else (True, set())         # cut recursion pessimistically
        saved = self._cur
        sub = Inliner(self.facts, self.keep)
        sub._eff_cache = self.__dict__.setdefault("_eff_cache", {})
        g = sub.inline(f)
        self._cur = saved
        eff = False
        tallies = set()
        envdef = {}      # local -> index of the captured variable it is a copy of
        if acc is not None:
            for blk in g.blocks:
                for st in blk["stmts"]:
                    if st["k"] == "assign" and not st["dst"]["p"] and st["rv"].get("k") == "use" and st["rv"]["op"].get("k") in ("copy", "move"):
                        pl = st["rv"]["op"]["pl"]
                        if pl["l"] == 1 and len(pl["p"]) in (1, 2) and isinstance(pl["p"][-1], dict) and "f" in pl["p"][-1] and str(pl["p"][-1].get("of", "")).startswith("closure:") \
                                and all(e == "*" for e in pl["p"][:-1]):
                            envdef.setdefault(st["dst"]["l"], set()).add(pl["p"][-1]["f"])
        ndefs = {}
        for blk in g.blocks:
            for st in blk["stmts"]:
                if st["k"] == "assign" and not st["dst"]["p"]:
                    ndefs[st["dst"]["l"]] = ndefs.get(st["dst"]["l"], 0) + 1
        for blk in g.blocks:
            if blk["cleanup"]:
                continue
            for st in blk["stmts"]:
                if st["k"] == "assign" and any(e == "*" for e in st["dst"]["p"]) and not st.get("macro"):
                    l = st["dst"]["l"]
                    if acc is not None and st["dst"]["p"] == ["*"] and l in envdef and len(envdef[l]) == 1 and ndefs.get(l) == 1 \
                            and (g.locals[l].get("ty") or {}).get("s") in self.INT_REFMUT:
                        tallies |= envdef[l]
                        continue
                    eff = True
            t = blk["term"]
            if t["k"] == "drop" and (t["ty"].get("dp") or t["ty"].get("adt") in self.HANDLES or (t["ty"].get("adt") or "").startswith("core::cell::Ref")):
                eff = True
            if t["k"] == "call" and t.get("callee"):
                if t.get("macro") and "log" in str(t.get("macro")):
                    continue
                d = t["callee"]["def"]
                m = d.rsplit("::", 1)[-1]
                for pre, names in self.EFFECT_CALLS:
                    if d.startswith(pre) and m in names:
                        eff = True
                if d.startswith("hashbrown::") and m in self.HASH_WRITERS:
                    eff = True
                if t["callee"].get("trait") and not t["callee"].get("resolved") and (t["callee"].get("self_ty") or {}).get("hp") and not d.startswith("core::ops::Fn") \
                        and not d.startswith("core::iter::") and not d.startswith("core::ops::Deref") and d not in ("core::clone::Clone::clone", "core::cmp::PartialEq::eq", "core::cmp::PartialEq::ne"):
                    eff = True   # user trait method on a generic parameter
            elif t["k"] == "call":
                eff = True       # indirect call
        if acc is not None:
            cache[path] = (eff, tallies)
            acc.update(tallies)
            return eff
        cache[path] = eff
        return eff

    def _only_tallies(self, ty, a, locals_, blocks):
        """An effectful closure whose only effects are stores through captured `&mut <integer>` that, where the closure is
        created, borrow plain integer locals of the enclosing function (`n += 1` inside a `retain` predicate)."""
        if ty.get("k") != "closure":
            return False
        acc = set()
        if self._effectful(ty, acc) or not acc:
            return False
        if a.get("k") not in ("copy", "move") or a["pl"]["p"]:
            return False

        def defs(l):
            return [st for blk in blocks for st in blk["stmts"] if st["k"] == "assign" and st["dst"]["l"] == l and not st["dst"]["p"]]
        ds = defs(a["pl"]["l"])
        while len(ds) == 1 and ds[0]["rv"].get("k") == "use" and ds[0]["rv"]["op"].get("k") in ("copy", "move") and not ds[0]["rv"]["op"]["pl"]["p"]:
            ds = defs(ds[0]["rv"]["op"]["pl"]["l"])
        if len(ds) != 1 or ds[0]["rv"].get("k") != "agg" or ds[0]["rv"].get("ak") != "closure":
            return False
        ops = ds[0]["rv"]["ops"]
        tallied = []
        for i in acc:
            if i >= len(ops) or ops[i].get("k") not in ("copy", "move") or ops[i]["pl"]["p"]:
                return False
            rd = defs(ops[i]["pl"]["l"])
            if len(rd) != 1 or rd[0]["rv"].get("k") != "ref" or rd[0]["rv"]["pl"]["p"]:
                return False
            tgt = locals_[rd[0]["rv"]["pl"]["l"]]
            if ("&mut " + str((tgt.get("ty") or {}).get("s"))) not in self.INT_REFMUT:
                return False
            tallied.append(rd[0]["rv"]["pl"]["l"])
        return tallied

    def _writes_own_fields(self, fn):
        """Does this method assign to a field of `*self` (other than through calls)?"""
        cache = self.__dict__.setdefault("_wof_cache", {})
        if fn.path in cache:
            return cache[fn.path]
        r = False
        # locals that alias `self` (copies / reborrows of parameter 1)
        alias = {1}
        for _ in range(3):
            for blk in fn.blocks:
                for st in blk["stmts"]:
                    if st["k"] == "assign" and not st["dst"]["p"]:
                        rv = st["rv"]
                        if rv["k"] == "use" and rv["op"].get("k") in ("copy", "move") and not rv["op"]["pl"]["p"] and rv["op"]["pl"]["l"] in alias:
                            alias.add(st["dst"]["l"])
                        if rv["k"] in ("ref", "addr") and rv["pl"]["p"] == ["*"] and rv["pl"]["l"] in alias:
                            alias.add(st["dst"]["l"])
        for blk in fn.blocks:
            for st in blk["stmts"]:
                if st["k"] == "assign" and st["dst"]["l"] in alias and st["dst"]["p"] and st["dst"]["p"][0] == "*" and any(isinstance(e, dict) and "f" in e for e in st["dst"]["p"]):
                    r = True
                # `&mut self.field` (handed to `Option::take`, `mem::replace`, ...) steps the field as well
                rv = st.get("rv") or {}
                if st["k"] == "assign" and rv.get("k") == "ref" and rv.get("mut") is not False and rv["pl"]["l"] in alias and rv["pl"]["p"] and rv["pl"]["p"][0] == "*" \
                        and any(isinstance(e, dict) and "f" in e for e in rv["pl"]["p"]) \
                        and str((fn.locals[st["dst"]["l"]].get("ty") or {}).get("s", "")).startswith("&mut core::option::Option<"):
                    r = True
        cache[fn.path] = r
        return r

    def _local_def(self, l, blocks):
        """The single definition of local l: ('stmt', rvalue) | ('call', terminator) | None."""
        found = None
        for blk in blocks:
            for st in blk["stmts"]:
                if st["k"] == "assign" and st["dst"]["l"] == l:
                    if st["dst"]["p"] or found is not None:
                        return None
                    found = ("stmt", st["rv"])
            t = blk["term"]
            if t["k"] == "call" and t["dst"]["l"] == l:
                if t["dst"]["p"] or found is not None:
                    return None
                found = ("call", t)
        return found

    def _lazy_chain(self, op, locals_, blocks):
        """Stages of the iterator value behind operand `op`, outermost first:
        [(kind, source local, closure operand | None, closure type | None), ...]; the last source local is the base."""
        if op.get("k") not in ("copy", "move") or op["pl"]["p"]:
            return None
        l = op["pl"]["l"]
        stages = []
        self._chain_base = l
        for _ in range(24):
            self._chain_base = l
            d = self._local_def(l, blocks)
            if d is None:
                break
            if d[0] == "stmt":
                rv = d[1]
                if rv["k"] in ("ref", "addr") and rv["pl"]["p"] in ([], ["*"]):
                    l = rv["pl"]["l"]
                    continue
                if rv["k"] == "use" and rv["op"].get("k") in ("copy", "move") and not rv["op"]["pl"]["p"]:
                    l = rv["op"]["pl"]["l"]
                    continue
                if rv["k"] == "copyderef" and not rv["pl"]["p"]:
                    l = rv["pl"]["l"]
                    continue
                break
            t = d[1]
            cal = t.get("callee") or {}
            dd = cal.get("def")
            a = t["args"]
            if not a or a[0].get("k") not in ("copy", "move") or a[0]["pl"]["p"]:
                break
            if dd in self.LAZY_IDENTITY:
                # identity only when the argument is itself an adaptor value we can follow
                inner = self._local_def(a[0]["pl"]["l"], blocks)
                nxt = a[0]["pl"]["l"]
                probe = self._peek_stage(nxt, blocks)
                if probe:
                    l = nxt
                    continue
                break
            if dd in self.LAZY_STAGES:
                kind = self.LAZY_STAGES[dd]
                cop = a[1] if len(a) > 1 else None
                cty = None
                if cop is not None:
                    cty = self._op_ty(cop, locals_)
                    if cty is None or cty.get("k") not in ("closure", "fndef"):
                        cty = self._captured_callee(cop, locals_, blocks)
                stages.append((kind, l, a[0]["pl"]["l"], cop, cty))
                l = a[0]["pl"]["l"]
                continue
            break
        return stages

    def _peek_stage(self, l, blocks):
        """Is local l (through copies / reborrows) the result of a lazy adaptor constructor?"""
        for _ in range(12):
            d = self._local_def(l, blocks)
            if d is None:
                return False
            if d[0] == "stmt":
                rv = d[1]
                if rv["k"] in ("ref", "addr") and rv["pl"]["p"] in ([], ["*"]):
                    l = rv["pl"]["l"]
                    continue
                if rv["k"] == "use" and rv["op"].get("k") in ("copy", "move") and not rv["op"]["pl"]["p"]:
                    l = rv["op"]["pl"]["l"]
                    continue
                return False
            dd = (d[1].get("callee") or {}).get("def")
            if dd in self.LAZY_STAGES:
                return True
            if dd in self.LAZY_IDENTITY and d[1]["args"] and d[1]["args"][0].get("k") in ("copy", "move") and not d[1]["args"][0]["pl"]["p"]:
                l = d[1]["args"][0]["pl"]["l"]
                continue
            return False
        return False

    def _crate_iter_effectful(self, ty):
        """Is `ty` (through references) a type of this crate whose own `Iterator::next` has side effects?"""
        adt = (ty or {}).get("adt")
        if not adt or not adt.startswith(self.facts.crate + "::"):
            return False
        for f in self.facts.fns.values():
            if f.f.get("impl_trait") == "core::iter::Iterator" and f.name == "next" and (f.f.get("impl_self") or {}).get("adt") == adt:
                return self._effectful({"k": "fndef", "fndef": f.path})
        return False

    def _chain_effectful(self, stages):
        return any(cty is not None and self._effectful(cty) for (_k, _l, _i, _c, cty) in stages) or \
            any(k in ("filter", "map", "filter_map", "inspect") and cty is None for (k, _l, _i, _c, cty) in stages) or \
            any(k in ("map", "filter_map") and cty is not None and self._branchy(cty) for (k, _l, _i, _c, cty) in stages)

    def _branchy(self, fty):
        """A mapping closure that decides between several results (match / `?` / `cond.then(..)`): what it hands on is
        not one expression over the element, so the stage is unrolled into the loop it abbreviates, like hand-written
        `match` + `continue`."""
        path = fty.get("closure") or fty.get("fndef")
        cache = self.__dict__.setdefault("_branchy_cache", {})
        if path in cache:
            return cache[path]
        f = self.facts.fn(path) if path else None
        if f is None:
            cache[path] = False
            return False
        cache[path] = False
        saved = self._cur
        sub = Inliner(self.facts, self.keep)
        sub._branchy_cache = cache
        g = sub.inline(f)
        self._cur = saved
        r = any(blk["term"]["k"] == "switch" and not blk["cleanup"] and not blk["term"].get("macro") for blk in g.blocks)
        cache[path] = r
        return r

    OPT_TY = {"s": "core::option::Option<?>", "k": "adt", "adt": "core::option::Option", "peel": 0, "hp": False, "nd": False, "dp": 0, "dpf": 0, "dtor": False}
    UNK_TY = {"s": "?", "k": "other", "hp": False, "nd": False, "dp": 0}

    def _next_on(self, inner_local, dst_local, target, unwind, cleanup, span, locals_):
        """Block: dst_local = Iterator::next(&mut inner_local) -> target"""
        rl = len(locals_)
        locals_.append({"ty": {"s": "&mut ?", "k": "refmut", "hp": False, "nd": False, "dp": 0}, "name": None})
        callee = {"def": "core::iter::Iterator::next", "full": "core::iter::Iterator::next", "crate": "core", "args": [], "targs": [], "local": False,
                  "trait": "core::iter::Iterator", "self_ty": locals_[inner_local]["ty"]}
        return {"cleanup": cleanup, "stmts": [{"k": "assign", "dst": {"l": rl, "p": []}, "rv": {"k": "ref", "mut": True, "pl": {"l": inner_local, "p": []}}, **span}],
                "term": {"k": "call", "callee": callee, "fnop": {"k": "const", "ty": self.UNK_TY, "desc": "next"}, "args": [{"k": "move", "pl": {"l": rl, "p": []}}],
                         "argtys": [{"s": "&mut ?", "k": "refmut"}], "dst": {"l": dst_local, "p": []}, "target": target, "unwind": unwind, **span, "macro": span.get("macro") or "Desugaring(ForLoop)"}}

    def _expand_lazy_next(self, b, t, callee, locals_, blocks):
        """`Iterator::next` on a pipeline whose outermost expandable stage (or one below it) has an effectful closure."""
        stages = self._lazy_chain(t["args"][0], locals_, blocks) if t["args"] else None
        if not stages or not (self._chain_effectful(stages) or self._crate_iter_effectful(locals_[self._chain_base]["ty"])):
            return None
        kind, _self_l, inner, cop, cty = stages[0]
        if kind != "copied" and (cty is None or cop is None):
            self.lazy_unexpanded.append((self._cur, b, "next on `%s` with an unknown closure" % kind))
            return None
        span = {k: t.get(k) for k in ("file", "line", "exp", "macro")}
        cleanup = blocks[b]["cleanup"]
        unwind = t["unwind"]
        goto_t = {"k": "goto", "target": t["target"], **span} if t["target"] is not None else {"k": "unreachable", **span}
        nl = lambda ty: (locals_.append({"ty": ty, "name": None}), len(locals_) - 1)[1]
        x = nl(dict(self.OPT_TY))
        dl = nl({"s": "isize", "k": "int", "hp": False, "nd": False, "dp": 0})
        n0 = len(blocks)
        hdr, sw, call, chk, some, none = n0, n0 + 1, n0 + 2, n0 + 3, n0 + 4, n0 + 5
        blocks.append(self._next_on(inner, x, sw, unwind, cleanup, span, locals_))
        blocks.append({"cleanup": cleanup, "stmts": [{"k": "assign", "dst": {"l": dl, "p": []}, "rv": {"k": "discr", "pl": {"l": x, "p": []}}, **span}],
                       "term": {"k": "switch", "discr": {"k": "move", "pl": {"l": dl, "p": []}}, "targets": [["0", none], ["1", call]], "otherwise": none, **span}})
        payload_pl = {"l": x, "p": [{"dc": "Some", "vi": 1}, {"f": 0, "n": "0", "of": ""}]}
        none_rv = {"k": "agg", "ak": "adt", "name": "core::option::Option", "variant": "None", "vidx": 0, "fields": [], "ops": []}
        if kind == "copied":
            pl = nl(dict(self.UNK_TY))
            dpl = copy.deepcopy(payload_pl)
            dpl["p"].append("*")
            blocks.append({"cleanup": cleanup, "stmts": [
                {"k": "assign", "dst": {"l": pl, "p": []}, "rv": {"k": "use", "op": {"k": "copy", "pl": dpl}}, **span},
                {"k": "assign", "dst": copy.deepcopy(t["dst"]), "rv": {"k": "agg", "ak": "adt", "name": "core::option::Option", "variant": "Some", "vidx": 1, "fields": ["0"], "ops": [{"k": "move", "pl": {"l": pl, "p": []}}]}, **span}],
                "term": dict(goto_t)})
            blocks.append({"cleanup": cleanup, "stmts": [], "term": {"k": "unreachable", **span}})
            blocks.append({"cleanup": cleanup, "stmts": [], "term": {"k": "unreachable", **span}})
            blocks.append({"cleanup": cleanup, "stmts": [{"k": "assign", "dst": copy.deepcopy(t["dst"]), "rv": none_rv, **span}], "term": dict(goto_t)})
            blocks[b]["term"] = {"k": "goto", "target": hdr, **span, "adaptor": "lazy-next:" + kind, "lazy": {"hdr": hdr, "target": t["target"], "none": none, "some": call}}
            blocks[hdr]["term"]["lazy_inner"] = True
            if t.get("lazy_inner"):
                blocks[b]["term"]["lazy_inner"] = True
            return [hdr, sw, call, chk, some, none]
        # closure call
        fl = nl(cty)
        frl = nl({"s": "&mut ?", "k": "refmut", "hp": False, "nd": False, "dp": 0})
        tl = nl({"s": "(?,)", "k": "tuple", "hp": False, "nd": False, "dp": 0})
        arg = nl(dict(self.UNK_TY))
        by_ref = kind in ("filter", "inspect")
        res_ty = {"s": "bool", "k": "bool", "hp": False, "nd": False, "dp": 0} if kind == "filter" else (dict(self.OPT_TY) if kind == "filter_map" else ({"s": "()", "k": "tuple", "hp": False, "nd": False, "dp": 0} if kind == "inspect" else dict(self.UNK_TY)))
        y = nl(res_ty)
        arg_stmt = {"k": "assign", "dst": {"l": arg, "p": []}, "rv": ({"k": "ref", "mut": False, "pl": copy.deepcopy(payload_pl)} if by_ref else {"k": "use", "op": {"k": "move", "pl": copy.deepcopy(payload_pl)}}), **span}
        blocks.append({"cleanup": cleanup, "stmts": [
            arg_stmt,
            {"k": "assign", "dst": {"l": tl, "p": []}, "rv": {"k": "agg", "ak": "tuple", "name": "", "variant": "", "vidx": 0, "fields": [], "ops": [{"k": "move", "pl": {"l": arg, "p": []}}]}, **span},
            {"k": "assign", "dst": {"l": fl, "p": []}, "rv": {"k": "use", "op": copy.deepcopy(cop)}, **span},
            {"k": "assign", "dst": {"l": frl, "p": []}, "rv": {"k": "ref", "mut": True, "pl": {"l": fl, "p": []}}, **span}],
            "term": {"k": "call", "callee": {"def": "core::ops::FnMut::call_mut", "full": "core::ops::FnMut::call_mut", "crate": "core", "args": [], "targs": [], "local": False, "trait": "core::ops::FnMut"},
                     "fnop": {"k": "const", "ty": self.UNK_TY, "desc": "call_mut"}, "args": [{"k": "move", "pl": {"l": frl, "p": []}}, {"k": "move", "pl": {"l": tl, "p": []}}],
                     "argtys": [cty, {"s": "(?,)", "k": "tuple"}], "dst": {"l": y, "p": []}, "target": chk, "unwind": unwind, **span}})
        if kind == "filter":
            blocks.append({"cleanup": cleanup, "stmts": [], "term": {"k": "switch", "discr": {"k": "move", "pl": {"l": y, "p": []}}, "targets": [["0", hdr]], "otherwise": some, **span}})
            blocks.append({"cleanup": cleanup, "stmts": [{"k": "assign", "dst": copy.deepcopy(t["dst"]), "rv": {"k": "use", "op": {"k": "move", "pl": {"l": x, "p": []}}}, **span}], "term": dict(goto_t)})
        elif kind == "filter_map":
            d2 = nl({"s": "isize", "k": "int", "hp": False, "nd": False, "dp": 0})
            blocks.append({"cleanup": cleanup, "stmts": [{"k": "assign", "dst": {"l": d2, "p": []}, "rv": {"k": "discr", "pl": {"l": y, "p": []}}, **span}],
                           "term": {"k": "switch", "discr": {"k": "move", "pl": {"l": d2, "p": []}}, "targets": [["1", some]], "otherwise": hdr, **span}})
            blocks.append({"cleanup": cleanup, "stmts": [{"k": "assign", "dst": copy.deepcopy(t["dst"]), "rv": {"k": "use", "op": {"k": "move", "pl": {"l": y, "p": []}}}, **span}], "term": dict(goto_t)})
        elif kind == "map":
            blocks.append({"cleanup": cleanup, "stmts": [], "term": {"k": "goto", "target": some, **span}})
            blocks.append({"cleanup": cleanup, "stmts": [{"k": "assign", "dst": copy.deepcopy(t["dst"]), "rv": {"k": "agg", "ak": "adt", "name": "core::option::Option", "variant": "Some", "vidx": 1, "fields": ["0"], "ops": [{"k": "move", "pl": {"l": y, "p": []}}]}, **span}], "term": dict(goto_t)})
        else:  # inspect
            blocks.append({"cleanup": cleanup, "stmts": [], "term": {"k": "goto", "target": some, **span}})
            blocks.append({"cleanup": cleanup, "stmts": [{"k": "assign", "dst": copy.deepcopy(t["dst"]), "rv": {"k": "use", "op": {"k": "move", "pl": {"l": x, "p": []}}}, **span}], "term": dict(goto_t)})
        blocks.append({"cleanup": cleanup, "stmts": [{"k": "assign", "dst": copy.deepcopy(t["dst"]), "rv": none_rv, **span}], "term": dict(goto_t)})
        blocks[b]["term"] = {"k": "goto", "target": hdr, **span, "adaptor": "lazy-next:" + kind, "lazy": {"hdr": hdr, "target": t["target"], "none": none, "some": some}}
        blocks[hdr]["term"]["lazy_inner"] = True
        if t.get("lazy_inner"):
            blocks[b]["term"]["lazy_inner"] = True
        return [hdr, sw, call, chk, some, none]

    def _expand_lazy_collect(self, b, t, callee, locals_, blocks):
        """`pipeline.collect::<Vec<_>>()` / `vec.extend(pipeline)` where the pipeline has an effectful closure:
        loop { match pipeline.next() { Some(x) => vec.push(x), None => break } }"""
        d = callee["def"]
        a = t["args"]
        if d == "core::iter::Iterator::collect":
            src = a[0] if a else None
            into_vec = (locals_[t["dst"]["l"]]["ty"].get("adt") == "alloc::vec::Vec" and locals_[t["dst"]["l"]]["ty"].get("peel", 0) == 0) if not t["dst"]["p"] else False
        else:
            src = a[1] if len(a) > 1 else None
            into_vec = (callee.get("self_ty") or {}).get("adt") == "alloc::vec::Vec"
        if src is None:
            return None
        stages = self._lazy_chain(src, locals_, blocks)
        base_eff = self._crate_iter_effectful(locals_[self._chain_base]["ty"]) if stages is not None else False
        if not ((stages and self._chain_effectful(stages)) or base_eff):
            return None
        if not into_vec or src.get("k") not in ("copy", "move") or src["pl"]["p"]:
            self.lazy_unexpanded.append((self._cur, b, "`%s` of a pipeline with an effectful closure" % d.rsplit("::", 1)[1]))
            return None
        span = {k: t.get(k) for k in ("file", "line", "exp", "macro")}
        cleanup = blocks[b]["cleanup"]
        unwind = t["unwind"]
        goto_t = {"k": "goto", "target": t["target"], **span} if t["target"] is not None else {"k": "unreachable", **span}
        nl = lambda ty: (locals_.append({"ty": ty, "name": None}), len(locals_) - 1)[1]
        it = src["pl"]["l"]
        x = nl(dict(self.OPT_TY))
        dl = nl({"s": "isize", "k": "int", "hp": False, "nd": False, "dp": 0})
        pl = nl(dict(self.UNK_TY))
        ul = nl({"s": "()", "k": "tuple", "hp": False, "nd": False, "dp": 0})
        vr = nl({"s": "&mut alloc::vec::Vec<?>", "k": "refmut", "adt": "alloc::vec::Vec", "peel": 1, "hp": False, "nd": False, "dp": 0})
        n0 = len(blocks)
        pre, hdr, sw, push, done = n0, n0 + 1, n0 + 2, n0 + 3, n0 + 4
        vec_callee = lambda m: {"def": "alloc::vec::Vec::<T>::" + m if m == "new" else "alloc::vec::Vec::<T, A>::" + m, "full": "alloc::vec::Vec::" + m, "crate": "alloc", "args": [], "targs": [], "local": False}
        if d == "core::iter::Iterator::collect":
            vloc = t["dst"]["l"]
            blocks.append({"cleanup": cleanup, "stmts": [], "term": {"k": "call", "callee": vec_callee("new"), "fnop": {"k": "const", "ty": self.UNK_TY, "desc": "Vec::new"}, "args": [], "argtys": [],
                                                                   "dst": {"l": vloc, "p": []}, "target": hdr, "unwind": unwind, **span}})
            vec_ref = {"k": "ref", "mut": True, "pl": {"l": vloc, "p": []}}
            done_stmts = []
        else:
            blocks.append({"cleanup": cleanup, "stmts": [], "term": {"k": "goto", "target": hdr, **span}})
            vec_ref = {"k": "use", "op": copy.deepcopy(a[0])} if a[0].get("k") == "copy" else {"k": "use", "op": {"k": "copy", "pl": copy.deepcopy(a[0]["pl"])}}
            done_stmts = [{"k": "assign", "dst": copy.deepcopy(t["dst"]), "rv": {"k": "use", "op": {"k": "const", "ty": {"s": "()", "k": "tuple"}, "desc": "()"}}, **span}]
        blocks.append(self._next_on(it, x, sw, unwind, cleanup, span, locals_))
        blocks.append({"cleanup": cleanup, "stmts": [{"k": "assign", "dst": {"l": dl, "p": []}, "rv": {"k": "discr", "pl": {"l": x, "p": []}}, **span}],
                       "term": {"k": "switch", "discr": {"k": "move", "pl": {"l": dl, "p": []}}, "targets": [["0", done], ["1", push]], "otherwise": done, **span}})
        blocks.append({"cleanup": cleanup, "stmts": [
            {"k": "assign", "dst": {"l": pl, "p": []}, "rv": {"k": "use", "op": {"k": "move", "pl": {"l": x, "p": [{"dc": "Some", "vi": 1}, {"f": 0, "n": "0", "of": ""}]}}}, **span},
            {"k": "assign", "dst": {"l": vr, "p": []}, "rv": vec_ref, **span}],
            "term": {"k": "call", "callee": vec_callee("push"), "fnop": {"k": "const", "ty": self.UNK_TY, "desc": "Vec::push"}, "args": [{"k": "move", "pl": {"l": vr, "p": []}}, {"k": "move", "pl": {"l": pl, "p": []}}],
                     "argtys": [], "dst": {"l": ul, "p": []}, "target": hdr, "unwind": unwind, **span}})
        blocks.append({"cleanup": cleanup, "stmts": done_stmts, "term": dict(goto_t)})
        blocks[b]["term"] = {"k": "goto", "target": pre, **span, "adaptor": "lazy-collect"}
        return [pre, hdr, sw, push, done]

    # library functions that run a closure argument and whose closure is either expanded, interpreted by a rule
    # (with its effects checked there), or run lazily (then checked where the pipeline is consumed)
    CLOSURE_TAKERS_OK = ("filter", "map", "filter_map", "inspect", "for_each", "any", "all", "find", "find_map", "position", "rposition",
                         "take_while", "skip_while", "min_by_key", "max_by_key", "min_by", "max_by", "and_modify", "extract_if",
                         "call_once", "call_mut", "call", "update", "unwrap_or_else", "map_or", "map_or_else", "or_else", "and_then", "is_some_and", "then")

    def _note_foreign_closure(self, b, t, callee, locals_, blocks):
        """A closure of this crate with side effects handed to library code we neither expand nor interpret."""
        if callee is None or t.get("macro"):
            return
        d = callee["def"]
        m = d.rsplit("::", 1)[-1]
        if m in self.CLOSURE_TAKERS_OK:
            return
        for a in t["args"]:
            ty = self._op_ty(a, locals_)
            if ty is not None and ty.get("k") in ("closure", "fndef") and self.facts.fn(ty.get("closure") or ty.get("fndef") or "") is not None and self._effectful(ty):
                tallied = self._only_tallies(ty, a, locals_, blocks)
                if tallied and isinstance(t.get("target"), int):
                    # the library code ran the closure some number of times: the tallies hold values unknown to us
                    span = {k: t.get(k) for k in ("file", "line", "exp", "macro")}
                    hv = [{"k": "assign", "dst": {"l": l, "p": []}, "rv": {"k": "havoc", "desc": "tally@%d %s" % (b, m)}, **span} for l in tallied]
                    blocks.append({"cleanup": blocks[b]["cleanup"], "stmts": hv, "term": {"k": "goto", "target": t["target"], **span}})
                    t["target"] = len(blocks) - 1
                    return [len(blocks) - 1]
                self.lazy_unexpanded.append((self._cur, b, "`%s` is given a closure with side effects" % d))
                return

    def _expand_find(self, b, t, callee, locals_, blocks):
        """`it.find(pred)` used as "the next element that satisfies pred" inside an iterator type of this crate:
        loop { let x = it.next()?; if pred(&x) { return Some(x) } }"""
        a = t["args"]
        if len(a) != 2 or a[0].get("k") not in ("copy", "move") or a[0]["pl"]["p"]:
            return None
        fty = self._op_ty(a[1], locals_)
        if fty is None or fty.get("k") not in ("closure", "fndef"):
            fty = self._captured_callee(a[1], locals_, blocks)
        if fty is None:
            return None
        span = {k: t.get(k) for k in ("file", "line", "exp", "macro")}
        cleanup = blocks[b]["cleanup"]
        unwind = t["unwind"]
        goto_t = {"k": "goto", "target": t["target"], **span} if t["target"] is not None else {"k": "unreachable", **span}
        nl = lambda ty: (locals_.append({"ty": ty, "name": None}), len(locals_) - 1)[1]
        r = a[0]["pl"]["l"]
        x = nl(dict(self.OPT_TY))
        dl = nl({"s": "isize", "k": "int", "hp": False, "nd": False, "dp": 0})
        rr = nl({"s": "&mut ?", "k": "refmut", "hp": False, "nd": False, "dp": 0})
        pr = nl(dict(self.UNK_TY))
        tl = nl({"s": "(?,)", "k": "tuple", "hp": False, "nd": False, "dp": 0})
        fl = nl(fty)
        frl = nl({"s": "&mut ?", "k": "refmut", "hp": False, "nd": False, "dp": 0})
        y = nl({"s": "bool", "k": "bool", "hp": False, "nd": False, "dp": 0})
        n0 = len(blocks)
        hdr, sw, test, chk, some, none = n0, n0 + 1, n0 + 2, n0 + 3, n0 + 4, n0 + 5
        pointee = dict(locals_[r]["ty"])
        ncallee = {"def": "core::iter::Iterator::next", "full": "core::iter::Iterator::next", "crate": "core", "args": [], "targs": [], "local": False,
                   "trait": "core::iter::Iterator", "self_ty": pointee}
        blocks.append({"cleanup": cleanup, "stmts": [{"k": "assign", "dst": {"l": rr, "p": []}, "rv": {"k": "ref", "mut": True, "pl": {"l": r, "p": ["*"]}}, **span}],
                       "term": {"k": "call", "callee": ncallee, "fnop": {"k": "const", "ty": self.UNK_TY, "desc": "next"}, "args": [{"k": "move", "pl": {"l": rr, "p": []}}],
                                "argtys": [{"s": "&mut ?", "k": "refmut"}], "dst": {"l": x, "p": []}, "target": sw, "unwind": unwind, **span}})
        blocks.append({"cleanup": cleanup, "stmts": [{"k": "assign", "dst": {"l": dl, "p": []}, "rv": {"k": "discr", "pl": {"l": x, "p": []}}, **span}],
                       "term": {"k": "switch", "discr": {"k": "move", "pl": {"l": dl, "p": []}}, "targets": [["0", none], ["1", test]], "otherwise": none, **span}})
        payload_pl = {"l": x, "p": [{"dc": "Some", "vi": 1}, {"f": 0, "n": "0", "of": ""}]}
        blocks.append({"cleanup": cleanup, "stmts": [
            {"k": "assign", "dst": {"l": pr, "p": []}, "rv": {"k": "ref", "mut": False, "pl": copy.deepcopy(payload_pl)}, **span},
            {"k": "assign", "dst": {"l": tl, "p": []}, "rv": {"k": "agg", "ak": "tuple", "name": "", "variant": "", "vidx": 0, "fields": [], "ops": [{"k": "move", "pl": {"l": pr, "p": []}}]}, **span},
            {"k": "assign", "dst": {"l": fl, "p": []}, "rv": {"k": "use", "op": copy.deepcopy(a[1])}, **span},
            {"k": "assign", "dst": {"l": frl, "p": []}, "rv": {"k": "ref", "mut": True, "pl": {"l": fl, "p": []}}, **span}],
            "term": {"k": "call", "callee": {"def": "core::ops::FnMut::call_mut", "full": "core::ops::FnMut::call_mut", "crate": "core", "args": [], "targs": [], "local": False, "trait": "core::ops::FnMut"},
                     "fnop": {"k": "const", "ty": self.UNK_TY, "desc": "call_mut"}, "args": [{"k": "move", "pl": {"l": frl, "p": []}}, {"k": "move", "pl": {"l": tl, "p": []}}],
                     "argtys": [fty, {"s": "(?,)", "k": "tuple"}], "dst": {"l": y, "p": []}, "target": chk, "unwind": unwind, **span}})
        blocks.append({"cleanup": cleanup, "stmts": [], "term": {"k": "switch", "discr": {"k": "move", "pl": {"l": y, "p": []}}, "targets": [["0", hdr]], "otherwise": some, **span}})
        blocks.append({"cleanup": cleanup, "stmts": [{"k": "assign", "dst": copy.deepcopy(t["dst"]), "rv": {"k": "use", "op": {"k": "move", "pl": {"l": x, "p": []}}}, **span}], "term": dict(goto_t)})
        blocks.append({"cleanup": cleanup, "stmts": [{"k": "assign", "dst": copy.deepcopy(t["dst"]), "rv": {"k": "agg", "ak": "adt", "name": "core::option::Option", "variant": "None", "vidx": 0, "fields": [], "ops": []}, **span}], "term": dict(goto_t)})
        blocks[b]["term"] = {"k": "goto", "target": hdr, **span, "adaptor": "find", "lazy": {"hdr": hdr, "target": t["target"], "none": none, "some": some}}
        blocks[hdr]["term"]["lazy_inner"] = True
        return [hdr, sw, test, chk, some, none]

    def _expand_unzip(self, b, t, callee, locals_, blocks):
        """`let (xs, ys): (Vec<_>, Vec<_>) = pipeline.unzip()` where the pipeline runs crate code with effects:
        xs = Vec::new(); ys = Vec::new(); loop { match pipeline.next() { Some((x, y)) => { xs.push(x); ys.push(y) } None => break } }"""
        a = t["args"]
        if len(a) != 1 or a[0].get("k") not in ("copy", "move") or a[0]["pl"]["p"] or t["dst"]["p"]:
            return None
        stages = self._lazy_chain(a[0], locals_, blocks)
        if stages is None:
            return None
        if not ((stages and self._chain_effectful(stages)) or self._crate_iter_effectful(locals_[self._chain_base]["ty"])):
            return None
        dty = locals_[t["dst"]["l"]]["ty"]
        if dty.get("k") != "tuple" or "alloc::vec::Vec<" not in dty.get("s", ""):
            self.lazy_unexpanded.append((self._cur, b, "`unzip` of a pipeline with an effectful closure into something other than two Vecs"))
            return None
        span = {k: t.get(k) for k in ("file", "line", "exp", "macro")}
        cleanup = blocks[b]["cleanup"]
        unwind = t["unwind"]
        goto_t = {"k": "goto", "target": t["target"], **span} if t["target"] is not None else {"k": "unreachable", **span}
        nl = lambda ty: (locals_.append({"ty": ty, "name": None}), len(locals_) - 1)[1]
        vty = {"s": "alloc::vec::Vec<?>", "k": "adt", "adt": "alloc::vec::Vec", "peel": 0, "hp": True, "nd": True, "dp": 1}
        it = a[0]["pl"]["l"]
        va, vb = nl(dict(vty)), nl(dict(vty))
        x = nl(dict(self.OPT_TY))
        dl = nl({"s": "isize", "k": "int", "hp": False, "nd": False, "dp": 0})
        pa, pb = nl(dict(self.UNK_TY)), nl(dict(self.UNK_TY))
        ra, rb = nl({"s": "&mut alloc::vec::Vec<?>", "k": "refmut", "adt": "alloc::vec::Vec", "peel": 1, "hp": False, "nd": False, "dp": 0}), nl({"s": "&mut alloc::vec::Vec<?>", "k": "refmut", "adt": "alloc::vec::Vec", "peel": 1, "hp": False, "nd": False, "dp": 0})
        ua, ub = nl({"s": "()", "k": "tuple", "hp": False, "nd": False, "dp": 0}), nl({"s": "()", "k": "tuple", "hp": False, "nd": False, "dp": 0})
        n0 = len(blocks)
        new_a, new_b, hdr, sw, push_a, push_b, done = n0, n0 + 1, n0 + 2, n0 + 3, n0 + 4, n0 + 5, n0 + 6
        vec_callee = lambda m: {"def": "alloc::vec::Vec::<T>::" + m if m == "new" else "alloc::vec::Vec::<T, A>::" + m, "full": "alloc::vec::Vec::" + m, "crate": "alloc", "args": [], "targs": [], "local": False}
        call = lambda cal, args, dst, tgt: {"k": "call", "callee": cal, "fnop": {"k": "const", "ty": self.UNK_TY, "desc": cal["full"]}, "args": args, "argtys": [], "dst": {"l": dst, "p": []}, "target": tgt, "unwind": unwind, **span}
        blocks.append({"cleanup": cleanup, "stmts": [], "term": call(vec_callee("new"), [], va, new_b)})
        blocks.append({"cleanup": cleanup, "stmts": [], "term": call(vec_callee("new"), [], vb, hdr)})
        blocks.append(self._next_on(it, x, sw, unwind, cleanup, span, locals_))
        blocks.append({"cleanup": cleanup, "stmts": [{"k": "assign", "dst": {"l": dl, "p": []}, "rv": {"k": "discr", "pl": {"l": x, "p": []}}, **span}],
                       "term": {"k": "switch", "discr": {"k": "move", "pl": {"l": dl, "p": []}}, "targets": [["0", done], ["1", push_a]], "otherwise": done, **span}})
        pay = lambda i: {"k": "move", "pl": {"l": x, "p": [{"dc": "Some", "vi": 1}, {"f": 0, "n": "0", "of": ""}, {"f": i, "n": str(i), "of": "tuple"}]}}
        blocks.append({"cleanup": cleanup, "stmts": [
            {"k": "assign", "dst": {"l": pa, "p": []}, "rv": {"k": "use", "op": pay(0)}, **span},
            {"k": "assign", "dst": {"l": pb, "p": []}, "rv": {"k": "use", "op": pay(1)}, **span},
            {"k": "assign", "dst": {"l": ra, "p": []}, "rv": {"k": "ref", "mut": True, "pl": {"l": va, "p": []}}, **span}],
            "term": call(vec_callee("push"), [{"k": "move", "pl": {"l": ra, "p": []}}, {"k": "move", "pl": {"l": pa, "p": []}}], ua, push_b)})
        blocks.append({"cleanup": cleanup, "stmts": [
            {"k": "assign", "dst": {"l": rb, "p": []}, "rv": {"k": "ref", "mut": True, "pl": {"l": vb, "p": []}}, **span}],
            "term": call(vec_callee("push"), [{"k": "move", "pl": {"l": rb, "p": []}}, {"k": "move", "pl": {"l": pb, "p": []}}], ub, hdr)})
        blocks.append({"cleanup": cleanup, "stmts": [{"k": "assign", "dst": copy.deepcopy(t["dst"]), "rv": {"k": "agg", "ak": "tuple", "name": "", "variant": "", "vidx": 0, "fields": [],
                                                                                                       "ops": [{"k": "move", "pl": {"l": va, "p": []}}, {"k": "move", "pl": {"l": vb, "p": []}}]}, **span}], "term": dict(goto_t)})
        blocks[b]["term"] = {"k": "goto", "target": new_a, **span, "adaptor": "lazy-unzip"}
        return [new_a, new_b, hdr, sw, push_a, push_b, done]

    def _expand_fold(self, b, t, callee, locals_, blocks):
        """`it.fold(init, f)` with a statically known, effectful closure:
        acc = init; loop { match it.next() { Some(x) => acc = f(acc, x), None => break } }; acc"""
        a = t["args"]
        if len(a) != 3 or a[0].get("k") not in ("copy", "move") or a[0]["pl"]["p"] or t["dst"]["p"]:
            return None
        fty = self._op_ty(a[2], locals_)
        if fty is None or fty.get("k") not in ("closure", "fndef"):
            return None
        if not self._effectful(fty):
            st_ = self._lazy_chain(a[0], locals_, blocks)
            if not ((st_ and self._chain_effectful(st_)) or (st_ is not None and self._crate_iter_effectful(locals_[self._chain_base]["ty"]))):
                return None
        span = {k: t.get(k) for k in ("file", "line", "exp", "macro")}
        cleanup = blocks[b]["cleanup"]
        unwind = t["unwind"]
        goto_t = {"k": "goto", "target": t["target"], **span} if t["target"] is not None else {"k": "unreachable", **span}
        nl = lambda ty: (locals_.append({"ty": ty, "name": None}), len(locals_) - 1)[1]
        it = a[0]["pl"]["l"]
        acc = nl(locals_[t["dst"]["l"]]["ty"])
        x = nl(dict(self.OPT_TY))
        dl = nl({"s": "isize", "k": "int", "hp": False, "nd": False, "dp": 0})
        pl = nl(dict(self.UNK_TY))
        tl = nl({"s": "(?, ?)", "k": "tuple", "hp": False, "nd": False, "dp": 0})
        fl = nl(fty)
        frl = nl({"s": "&mut ?", "k": "refmut", "hp": False, "nd": False, "dp": 0})
        res = nl(locals_[t["dst"]["l"]]["ty"])
        n0 = len(blocks)
        hdr, sw, body, back, done = n0, n0 + 1, n0 + 2, n0 + 3, n0 + 4
        blocks.append(self._next_on(it, x, sw, unwind, cleanup, span, locals_))
        blocks.append({"cleanup": cleanup, "stmts": [{"k": "assign", "dst": {"l": dl, "p": []}, "rv": {"k": "discr", "pl": {"l": x, "p": []}}, **span}],
                       "term": {"k": "switch", "discr": {"k": "move", "pl": {"l": dl, "p": []}}, "targets": [["0", done], ["1", body]], "otherwise": done, **span}})
        blocks.append({"cleanup": cleanup, "stmts": [
            {"k": "assign", "dst": {"l": pl, "p": []}, "rv": {"k": "use", "op": {"k": "move", "pl": {"l": x, "p": [{"dc": "Some", "vi": 1}, {"f": 0, "n": "0", "of": ""}]}}}, **span},
            {"k": "assign", "dst": {"l": tl, "p": []}, "rv": {"k": "agg", "ak": "tuple", "name": "", "variant": "", "vidx": 0, "fields": [], "ops": [{"k": "move", "pl": {"l": acc, "p": []}}, {"k": "move", "pl": {"l": pl, "p": []}}]}, **span},
            {"k": "assign", "dst": {"l": frl, "p": []}, "rv": {"k": "ref", "mut": True, "pl": {"l": fl, "p": []}}, **span}],
            "term": {"k": "call", "callee": {"def": "core::ops::FnMut::call_mut", "full": "core::ops::FnMut::call_mut", "crate": "core", "args": [], "targs": [], "local": False, "trait": "core::ops::FnMut"},
                     "fnop": {"k": "const", "ty": self.UNK_TY, "desc": "call_mut"}, "args": [{"k": "move", "pl": {"l": frl, "p": []}}, {"k": "move", "pl": {"l": tl, "p": []}}],
                     "argtys": [fty, {"s": "(?, ?)", "k": "tuple"}], "dst": {"l": res, "p": []}, "target": back, "unwind": unwind, **span}})
        blocks.append({"cleanup": cleanup, "stmts": [{"k": "assign", "dst": {"l": acc, "p": []}, "rv": {"k": "use", "op": {"k": "move", "pl": {"l": res, "p": []}}}, **span}],
                       "term": {"k": "goto", "target": hdr, **span}})
        blocks.append({"cleanup": cleanup, "stmts": [{"k": "assign", "dst": copy.deepcopy(t["dst"]), "rv": {"k": "use", "op": {"k": "move", "pl": {"l": acc, "p": []}}}, **span}], "term": dict(goto_t)})
        blocks[b]["stmts"].append({"k": "assign", "dst": {"l": acc, "p": []}, "rv": {"k": "use", "op": copy.deepcopy(a[1])}, **span})
        blocks[b]["stmts"].append({"k": "assign", "dst": {"l": fl, "p": []}, "rv": {"k": "use", "op": copy.deepcopy(a[2])}, **span})
        blocks[b]["term"] = {"k": "goto", "target": hdr, **span, "adaptor": "fold"}
        return [hdr, sw, body, back, done]

    LAZY_CONSUMERS_OK = ("next", "filter", "map", "filter_map", "inspect", "copied", "cloned", "by_ref", "fuse", "into_iter", "size_hint")

    def _note_unexpanded_consumer(self, b, t, callee, locals_, blocks):
        """Any other consumer of a pipeline with an effectful closure runs that closure out of sight: record it (no verdict is possible)."""
        d = callee["def"]
        if not d.startswith("core::iter::Iterator::") or not t["args"]:
            return
        m = d.rsplit("::", 1)[1]
        if m == "next" and callee.get("resolved"):
            return
        stages = self._lazy_chain(t["args"][0], locals_, blocks)
        base_ty = locals_[self._chain_base]["ty"] if getattr(self, "_chain_base", None) is not None else None
        if m not in self.LAZY_CONSUMERS_OK or m == "next":
            if self._crate_iter_effectful(base_ty) and not (m == "next" and not stages):
                self.lazy_unexpanded.append((self._cur, b, "`%s` drives an iterator type of this crate whose `next` has side effects from inside library code" % m))
                return
        if m in self.LAZY_CONSUMERS_OK:
            return
        if stages and self._chain_effectful(stages):
            self.lazy_unexpanded.append((self._cur, b, "`%s` on a pipeline with an effectful closure" % m))

    def _op_ty(self, op, locals_):
        if op["k"] in ("copy", "move") and not op["pl"]["p"]:
            return locals_[op["pl"]["l"]]["ty"]
        if op["k"] == "const":
            return op["ty"]
        return None

    def _propagate_types(self, locals_, blocks):
        """If a generic-typed local is assigned a closure / fn item value, record it."""
        changed = True
        n = 0
        while changed and n < 8:
            changed = False
            n += 1
            for blk in blocks:
                for s in blk["stmts"]:
                    if s["k"] != "assign" or s["dst"]["p"]:
                        continue
                    dl = locals_[s["dst"]["l"]]
                    if s["rv"]["k"] == "ref" and not s["rv"]["pl"]["p"]:
                        # `&mut f` / `&f` of a local holding a known closure: calling through the reference calls it
                        sty = locals_[s["rv"]["pl"]["l"]]["ty"]
                        if sty.get("k") in ("closure", "fndef") and dl["ty"].get("k") in ("ref", "refmut") and dl["ty"].get("hp") and not dl["ty"].get("adt"):
                            dl["ty"] = sty
                            changed = True
                        continue
                    if s["rv"]["k"] == "cast" and str(s["rv"].get("ck", "")).startswith(("Coerce:ClosureFnPointer", "Coerce:ReifyFnPointer")) and dl["ty"].get("k") == "fnptr":
                        # `let f: fn(..) = |..| ..;` / `= some_fn;`: a fn pointer local with one definition is that callable
                        sty = self._op_ty(s["rv"]["op"], locals_)
                        if sty is not None and sty.get("k") in ("closure", "fndef") and self._single_def(s["dst"]["l"], blocks) is s["rv"]:
                            dl["ty"] = sty
                            changed = True
                        continue
                    if s["rv"]["k"] != "use":
                        continue
                    if dl["ty"].get("k") != "param":
                        continue
                    sty = self._op_ty(s["rv"]["op"], locals_)
                    if sty is not None and sty.get("k") in ("closure", "fndef"):
                        dl["ty"] = sty
                        changed = True

    def _call_target(self, t, callee, locals_, self_subst):
        """Resolve a call terminator to (Fn, self_subst, args)."""
        if callee is None:
            return None, None, None
        if callee["def"] in FN_TRAITS and t["args"]:
            fty = self._op_ty(t["args"][0], locals_)
            # peel references: argtys carries the static type; a local retyped by propagation wins
            if fty is None or fty.get("k") not in ("closure", "fndef"):
                aty = t.get("argtys", [None])[0]
                if aty is not None and aty.get("k") in ("closure", "fndef"):
                    fty = aty
            if fty is None or fty.get("k") not in ("closure", "fndef"):
                fty = self._captured_callee(t["args"][0], locals_, t.get("_blocks"))
            if fty is None:
                return None, None, None
            tup = t["args"][1] if len(t["args"]) > 1 else None
            if fty.get("k") == "closure":
                f = self.facts.fn(fty["closure"])
                if f is None:
                    return None, None, None
                args = [t["args"][0]]
                n = f.argc - 1
                args.extend(self._untuple(tup, n))
                return f, None, args
            if fty.get("k") == "fndef":
                f = self.facts.fn(fty["fndef"])
                if f is None:
                    # external fn item called through Fn*: rewrite into a direct call
                    nargs = self._tuple_ops(tup, t.get("_blk"))
                    path = fty["fndef"]
                    t["callee"] = {"def": path, "full": path, "crate": path.split("::")[0], "args": [], "targs": [], "local": False, "via_fn_trait": True}
                    t["args"] = nargs
                    t["untupled"] = True
                    return None, None, None
                sub = None
                if f.f.get("trait_default_of") and fty.get("fnin"):
                    # a provided trait method used as a fn item (`opt.iter().for_each(RcInnerPtr::inc_weak)`): Self is the
                    # type of its receiver
                    recv = fty["fnin"][0]
                    if recv.get("adt"):
                        sub = dict(recv, peel=0, k="adt", s=str(recv.get("s", "")).lstrip("&").replace("mut ", ""))
                return f, sub, self._untuple(tup, f.argc)
            return None, None, None
        f, sub = self.resolve(callee, self_subst)
        if f is None:
            if callee.get("local") or callee.get("crate") == self.facts.crate:
                self.unresolved.append((callee["full"], self._cur))
            return None, None, None
        # a generic function instantiated with concrete types: remember what its type parameters stand for
        names, targs = f.f.get("tparams") or [], callee.get("targs") or []
        if callee.get("trait") and len(targs) == len(names) + 1:
            targs = targs[1:]      # a trait method's generic args start with Self; the impl's own method does not list it
        if names and len(names) == len(targs):
            outer = (self_subst or {}).get("_tp") or {}
            tp = {}
            for n_, ty in zip(names, targs):
                if ty.get("k") == "param":
                    if ty.get("s") in outer:
                        tp[n_] = outer[ty["s"]]
                    elif ty.get("s") == "Self" and self_subst is not None and self_subst.get("adt"):
                        tp[n_] = {k2: v2 for k2, v2 in self_subst.items() if k2 != "_tp"}
                elif ty.get("adt"):
                    tp[n_] = ty
            if tp:
                sub = dict(sub or {}, _tp=tp)
        return f, sub, t["args"]

    def _single_def(self, l, blocks):
        d = None
        for blk in blocks:
            for s_ in blk["stmts"]:
                if s_["k"] == "assign" and not s_["dst"]["p"] and s_["dst"]["l"] == l:
                    if d is not None:
                        return None
                    d = s_["rv"]
        return d

    def _closure_of_local(self, l, locals_, blocks, depth=0):
        """Closure / fn-item type of the value a local holds or refers to (through copies and reborrows)."""
        for _ in range(8):
            ty = locals_[l]["ty"]
            if ty.get("k") in ("closure", "fndef"):
                return ty
            d = self._single_def(l, blocks)
            if not d:
                return None
            if d["k"] in ("ref", "addr") and d["pl"]["p"] in (["*"], []):
                l = d["pl"]["l"]
            elif d["k"] == "use" and d["op"].get("k") in ("copy", "move") and not d["op"]["pl"]["p"]:
                l = d["op"]["pl"]["l"]
            elif d["k"] == "use" and d["op"].get("k") in ("copy", "move") and depth < 3:
                return self._captured_place(d["op"]["pl"], locals_, blocks, depth + 1)
            elif d["k"] == "copyderef" and depth < 3:
                return self._captured_place(d["pl"], locals_, blocks, depth + 1)
            else:
                return None
        return None

    def _captured_place(self, pl, locals_, blocks, depth=0):
        """`(*env).i` / `env.i`: the callee stored in slot i of a closure environment."""
        fields = [p for p in pl["p"] if isinstance(p, dict) and "f" in p]
        if len(fields) != 1:
            return None
        env = self._closure_of_local(pl["l"], locals_, blocks, depth)
        if env is None or not env.get("closure"):
            return None
        cpath = env["closure"]
        idx = fields[0]["f"]
        for blk in blocks:
            for s_ in blk["stmts"]:
                if s_["k"] == "assign" and s_["rv"]["k"] == "agg" and s_["rv"]["ak"] == "closure" and s_["rv"]["name"] == cpath and idx < len(s_["rv"]["ops"]):
                    o = s_["rv"]["ops"][idx]
                    if o.get("k") in ("copy", "move") and not o["pl"]["p"]:
                        r = self._closure_of_local(o["pl"]["l"], locals_, blocks, depth + 1)
                        if r is not None:
                            return r
                    ty = self._op_ty(o, locals_)
                    if ty is not None and ty.get("k") in ("closure", "fndef"):
                        return ty
        return None

    def _captured_callee(self, op, locals_, blocks):
        """Callee value reached through reborrows, copies and captures of enclosing closures."""
        if blocks is None or op.get("k") not in ("copy", "move"):
            return None
        pl = op["pl"]
        if not pl["p"]:
            return self._closure_of_local(pl["l"], locals_, blocks)
        return self._captured_place(pl, locals_, blocks)

    def _tuple_ops(self, tup, blk):
        """Operands of the tuple aggregate assigned to `tup`'s local in the call block."""
        if tup is None or tup["k"] == "const" or blk is None:
            return []
        l = tup["pl"]["l"]
        for s in reversed(blk["stmts"]):
            if s["k"] == "assign" and s["dst"]["l"] == l and not s["dst"]["p"] and s["rv"]["k"] == "agg" and s["rv"]["ak"] == "tuple":
                return copy.deepcopy(s["rv"]["ops"])
        return []

    def _untuple(self, tup, n):
        out = []
        if tup is None or tup["k"] == "const":
            return out
        for i in range(n):
            pl = copy.deepcopy(tup["pl"])
            pl["p"].append({"f": i, "n": str(i), "of": "tuple"})
            out.append({"k": tup["k"], "pl": pl})
        return out


def fn_site(p):
    return "%s@bb%d" % (p[0], p[1])
