"""Entry-point discovery and engine runs shared by all checks."""
import time
from mir import Facts
from inline import Inliner
from interp import Engine, HANDLE_ADTS
from expr import mk_field, mk_deref

RC = "cactusref::rc::Rc"
WEAK = "cactusref::rc::Weak"


class Program:
    """One fact set (one build configuration) plus caches."""

    def __init__(self, path, config="dev"):
        self.facts = Facts(path, config)
        self.config = config
        self.inliner = Inliner(self.facts)
        self._inl = {}

    def inlined(self, fn):
        if fn.path not in self._inl:
            self._inl[fn.path] = self.inliner.inline(fn)
        return self._inl[fn.path]

    # ------------------------------------------------------------ vocabulary
    def trait_impl_method(self, trait, self_adt, name):
        out = []
        for f in self.facts.fns.values():
            if f.f.get("impl_trait") == trait and f.name == name:
                isf = f.f.get("impl_self") or {}
                if isf.get("adt") == self_adt and isf.get("peel", 0) == 0:
                    out.append(f)
        return out

    def inherent(self, self_adt, name):
        out = []
        for f in self.facts.fns.values():
            if f.name == name and not f.f.get("impl_trait") and f.kind == "AssocFn":
                isf = f.f.get("impl_self") or {}
                if isf.get("adt") == self_adt and isf.get("peel", 0) == 0:
                    out.append(f)
        return out

    def one(self, lst, what):
        if len(lst) != 1:
            raise Inconclusive("vocabulary: expected exactly one %s, found %d" % (what, len(lst)))
        return lst[0]

    def rc_drop(self):
        return self.one(self.trait_impl_method("core::ops::Drop", RC, "drop"), "impl Drop for Rc")

    def weak_drop(self):
        return self.one(self.trait_impl_method("core::ops::Drop", WEAK, "drop"), "impl Drop for Weak")

    def rc_clone(self):
        return self.one(self.trait_impl_method("core::clone::Clone", RC, "clone"), "impl Clone for Rc")

    def weak_clone(self):
        return self.one(self.trait_impl_method("core::clone::Clone", WEAK, "clone"), "impl Clone for Weak")

    def adopt(self):
        return self.one(self.trait_impl_method("cactusref::adopt::Adopt", RC, "adopt_unchecked"), "Adopt::adopt_unchecked for Rc")

    def unadopt(self):
        return self.one(self.trait_impl_method("cactusref::adopt::Adopt", RC, "unadopt"), "Adopt::unadopt for Rc")

    def api(self, adt, name):
        return self.one(self.inherent(adt, name), "%s::%s" % (adt.split("::")[-1], name))

    def entries(self):
        """Every function reachable from outside the crate, plus trait impl methods on the handle types."""
        out = []
        for f in self.facts.fns.values():
            if f.kind not in ("Fn", "AssocFn"):
                continue
            if f.f.get("trait_default_of"):
                continue  # provided trait methods are analysed where they are instantiated
            if f.f.get("reachable"):
                out.append(f)
                continue
            isf = f.f.get("impl_self") or {}
            if f.f.get("impl_trait") and isf.get("adt") in (RC, WEAK):
                # impls of a private trait of this crate are helpers, not API: nothing outside the crate can name them
                if f.f["impl_trait"].startswith(self.facts.crate + "::") and f.f.get("vis") != "Public":
                    continue
                out.append(f)
        return sorted(out, key=lambda f: f.path)

    def run(self, fn, rules, **kw):
        g = self.inlined(fn)
        t0 = time.time()
        eng = Engine(g, rules, name=fn.path, **kw)
        eng.program = self
        eng.run()
        eng.wall = time.time() - t0
        if eng.truncated:
            raise Inconclusive("state budget exhausted while analysing %s" % fn.path)
        return eng


class Inconclusive(Exception):
    pass
