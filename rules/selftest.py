"""Checker self-test (thorough tier): every seeded defect that breaks the property must be reported
for it, every behaviour-preserving variant must stay silent.  Each patch is applied to a scratch
copy of the repository (outside /repo and /verif), which is removed as soon as its run ends.
Patches that no longer apply to the current tree are skipped, never counted as failures.
The outcome is reported in the evidence only; it never changes a check's verdict."""
import os, sys, json, glob, subprocess, tempfile, shutil
from concurrent.futures import ProcessPoolExecutor

HERE = os.path.dirname(os.path.dirname(os.path.abspath(__file__)))


COUNTS = {}


def below_floor(counts, floors, rule):
    return any(counts.get("%s|%s" % (rule, kind), 0) < need for kind, need in floors.get(rule, {}).items())


def catalogue():
    items = []
    p = os.path.join(HERE, "mutants", "catalogue.json")
    if os.path.exists(p):
        cat = json.load(open(p))
        for mid, meta in sorted(cat.items()):
            patch = os.path.join(HERE, "mutants", mid + ".patch")
            if os.path.exists(patch):
                items.append({"id": mid, "patch": patch, "kind": meta["kind"], "properties": meta.get("properties", []), "edit": meta.get("edit", ""), "base": meta.get("base"),
                              "configs": meta.get("configs")})
    for d in sorted(glob.glob(os.path.join(HERE, "seeded", "*"))):
        mp = os.path.join(d, "meta.json")
        patch = os.path.join(d, "patch.diff")
        if os.path.exists(mp) and os.path.exists(patch):
            meta = json.load(open(mp))
            items.append({"id": "seeded/" + os.path.basename(d), "patch": patch, "kind": meta.get("kind", "defect"),
                          "properties": meta.get("detected_for", meta.get("properties", [meta.get("property")])), "edit": meta.get("summary", ""),
                          "configs": meta.get("configs")})
    return items


def run_one(args):
    item, repo = args
    sys.path.insert(0, os.path.join(HERE, "rules"))
    td = tempfile.mkdtemp(prefix="verif-selftest-")
    try:
        subprocess.run(["rsync", "-a", "--exclude", "target", "--exclude", ".git", "--exclude", "benchmarks", repo.rstrip("/") + "/", td + "/r/"], check=True)
        r = subprocess.run(["patch", "-p1", "-s", "--no-backup-if-mismatch", "-i", item["patch"]], cwd=td + "/r", capture_output=True, text=True)
        from harness import Program, Inconclusive
        from analysis import analyse
        base_keys = set()
        base_tag = ""
        if r.returncode != 0 or item.get("base"):
            # the patch was written against an earlier commit of the repository (before a later `fix:` commit touched the
            # same lines): evaluate it against that commit, and count only what it adds to that commit's own report
            ok = False
            revs = subprocess.run(["git", "-C", repo, "rev-list", "--max-count=8", "HEAD"], capture_output=True, text=True).stdout.split()
            if item.get("base"):
                revs = [None, item["base"]]
            for rev in revs[1:]:
                shutil.rmtree(td + "/r", ignore_errors=True)
                os.makedirs(td + "/r")
                ar = subprocess.run("git -C %s archive %s | tar x -C %s" % (repo, rev, td + "/r"), shell=True, capture_output=True)
                if ar.returncode != 0:
                    continue
                shutil.rmtree(td + "/r/benchmarks", ignore_errors=True)
                shutil.rmtree(td + "/b", ignore_errors=True)
                shutil.copytree(td + "/r", td + "/b")
                r2 = subprocess.run(["patch", "-p1", "-s", "--no-backup-if-mismatch", "-i", item["patch"]], cwd=td + "/r", capture_output=True, text=True)
                if r2.returncode == 0:
                    ok = True
                    base_tag = "@" + rev[:7]
                    bf = td + "/base.json"
                    rb = subprocess.run([os.path.join(HERE, "factgen.sh"), td + "/b", bf, "dev"], capture_output=True, text=True)
                    if rb.returncode == 0:
                        try:
                            bres = analyse(Program(bf, "dev"))
                            base_keys = set("%s:%s" % (v["rule"], v["key"]) for v in bres.violations)
                        except (Inconclusive, KeyError):
                            pass
                    break
            if not ok:
                return item["id"], "skipped-does-not-apply", []
        facts = td + "/facts.json"
        r = subprocess.run([os.path.join(HERE, "factgen.sh"), td + "/r", facts, "dev"], capture_output=True, text=True)
        if r.returncode != 0:
            return item["id"], "skipped-does-not-build", []
        try:
            res = analyse(Program(facts, "dev"))
        except (Inconclusive, KeyError) as e:
            return item["id"], "inconclusive", [str(e)]
        counts = {}
        for o in res.obligations:
            k = "%s|%s" % (o[0], o[1].split(":")[0])
            counts[k] = counts.get(k, 0) + 1
        COUNTS[item["id"]] = counts
        allv = list(res.violations)
        # a change that only shows in another build configuration (no debug assertions / overflow checks, no std)
        for cfg in (item.get("configs") or []):
            if cfg == "dev":
                continue
            f2 = td + "/facts-%s.json" % cfg
            r2 = subprocess.run([os.path.join(HERE, "factgen.sh"), td + "/r", f2, cfg], capture_output=True, text=True)
            if r2.returncode != 0:
                return item["id"], "skipped-does-not-build", []
            try:
                allv.extend(analyse(Program(f2, cfg)).violations)
            except (Inconclusive, KeyError) as e:
                return item["id"], "inconclusive", [str(e)]
        keys = sorted(set("%s:%s" % (v["rule"], v["key"]) for v in allv) - base_keys)
        try:
            known_ = set(k["key"] for k in json.load(open(os.path.join(HERE, "known_findings.json")))["findings"] if k["status"] == "known")
        except Exception:
            known_ = set()
        if not [k for k in keys if k not in known_] and getattr(res, "inconclusive", None):
            return item["id"], "inconclusive", [res.inconclusive[0]]
        if item.get("want_counts"):
            return item["id"], "analysed" + base_tag, keys, counts
        return item["id"], "analysed" + base_tag, keys
    finally:
        shutil.rmtree(td, ignore_errors=True)


def selftest(pid, repo, relevant_keys, known_keys, baseline_keys):
    """relevant_keys(keys) -> subset relevant to pid."""
    items = catalogue()
    out = {"defects_expected": 0, "defects_reported": 0, "benign_total": 0, "benign_silent": 0, "skipped": 0, "failures": [], "details": []}
    jobs = [(dict(it, want_counts=True), repo) for it in items if it["kind"] != "defect" or pid in it["properties"]]
    with ProcessPoolExecutor(max_workers=min(16, max(1, len(jobs)))) as ex:
        results = list(ex.map(run_one, jobs))
    import props
    floors = json.load(open(os.path.join(HERE, "floors.json")))
    for (it, _), r in zip(jobs, results):
        iid, status, keys = r[0], r[1], r[2]
        counts = r[3] if len(r) > 3 else None
        if it["kind"].endswith("-unsupported"):
            out.setdefault("unsupported_inconclusive", 0)
            lost = status == "analysed" and counts is not None and any(below_floor(counts, floors, ru) for ru in props.RULE_TEXT)
            if status == "inconclusive" or (lost and not [k for k in relevant_keys(keys) if k not in known_keys and k not in baseline_keys]):
                out["unsupported_inconclusive"] += 1      # (a rule below its floor is the check's exit 2 as well)
            else:
                out["failures"].append("%s (outside the analysable idioms) was expected to be inconclusive, got %s" % (iid, status))
            out["details"].append({"id": iid, "status": status})
            continue
        if not status.startswith("analysed"):
            out["skipped"] += 1
            out["details"].append({"id": iid, "status": status})
            continue
        new = [k for k in relevant_keys(keys) if k not in known_keys and k not in baseline_keys]
        if it["kind"] == "defect":
            out["defects_expected"] += 1
            if new:
                out["defects_reported"] += 1
            else:
                out["failures"].append("%s not reported for %s" % (iid, pid))
            out["details"].append({"id": iid, "status": "reported" if new else "MISSED", "keys": new[:4], "edit": it["edit"][:100]})
        else:
            out["benign_total"] += 1
            low = [ru for ru in props.PROPS[pid] if counts is not None and status == "analysed" and below_floor(counts, floors, ru)]
            if low and not new:
                out["failures"].append("%s (behaviour-preserving) leaves %s below its floor: the check would answer INCONCLUSIVE" % (iid, low))
                out["details"].append({"id": iid, "status": "INCONCLUSIVE", "rules_below_floor": low})
                continue
            if not new:
                out["benign_silent"] += 1
            else:
                out["failures"].append("%s (behaviour-preserving) raised %s" % (iid, new[:2]))
            out["details"].append({"id": iid, "status": "silent" if not new else "FALSE-ALARM", "keys": new[:4]})
    return out
