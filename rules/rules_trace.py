"""Rules about the reachability trace, the orphan verdict and group teardown.

GATE-4  group lowering only under the orphan verdict for the same map
GATE-6  the verdict is `exists member: strong > group-owned count` with the right polarity, effect-free
GATE-7  every entry of an expanded node's table is registered in the result map (no kind ignored)
GATE-8  forward/loopback counts are accumulated (old + count), adopters get no positive credit,
        forward targets are pushed to the worklist
GATE-9  a node is expanded only behind a visited-set test + insert keyed by the popped element
GATE-10 the fields the visited-set key compares beyond those the expansion uses are fixed for
        every element that can enter the worklist
PROV-1  the amount by which group teardown lowers a member's count derives from that member's traced count
"""
from interp import Ev, DEAD, Engine, counter_read, iter_table
from expr import is_pop_call, show, mentions, is_const, mk_field, mk_deref, mk_ref, table_of, box_part, children
from rules_ts import add, rem, sub, is_elem_box

LINK = "cactusref::link::Link"
KIND_NAMES = {"0": "Forward", "1": "Backward", "2": "Loopback"}


def closure_path(e):
    if e[0] == "ref":
        e = e[1]
    if e[0] == "agg" and e[1] == "closure":
        return e[2]
    return None


def elem_of(box):
    """If `box` is the pointer field of a link obtained as the key of an element yielded by
    Iterator::next, return (element expr, iterator expr)."""
    found = []

    def pred(x):
        if x[0] == "variant" and x[2] == "Some" and x[1][0] == "call" and x[1][2] == "core::iter::Iterator::next":
            found.append(x)
            return True
        return False
    mentions(box, pred)
    if not found:
        return None
    some = found[0]
    return mk_field(some, "0", ""), some[1][3][0]


def iter_source(it):
    """Container an iterator expression walks: ('map', container expr) for local hash containers,
    ('table', box) for link tables, ('range', start, end), else None.  Adaptors are looked through."""
    e = it
    n = 0
    adaptors = []
    while isinstance(e, tuple) and n < 16:
        n += 1
        if e[0] == "ref":
            e = e[1]
            continue
        if e[0] == "agg" and e[2] in ("core::ops::Range", "core::ops::range::Range"):
            d = dict(e[5])
            return ("range", d.get("start"), d.get("end"), adaptors)
        if e[0] == "call":
            d = e[2]
            if d.startswith("hashbrown::") and e[3]:
                m = d.rsplit("::", 1)[1]
                if m in ("with_hasher", "with_capacity", "with_capacity_and_hasher", "new_in", "with_hasher_in"):
                    return ("map", e, "into_iter", adaptors)      # a constructor call: the container itself
                recv = e[3][0]
                tb = table_of(recv)
                if tb is not None:
                    return ("table", tb, m, adaptors)
                if m in ("into_keys", "into_values", "into_iter") and recv[0] != "ref":
                    return ("map", recv, m, adaptors)     # consumes the container by value
                return ("map", mk_deref(recv), m, adaptors)
            if d == "core::iter::IntoIterator::into_iter" and e[3]:
                a = e[3][0]
                inner = a[1] if a[0] == "ref" else a
                if inner[0] == "call" and (inner[2].startswith("hashbrown::") or inner[2].startswith("core::iter::")):
                    e = a
                    continue
                if inner[0] == "agg":
                    e = inner
                    continue
                if inner[0] == "const":
                    return None      # a constant array / slice: a sequence in source order
                # into_iter on a container value / reference
                tb = table_of(a)
                if tb is not None:
                    return ("table", tb, "into_iter", adaptors)
                return ("map", inner, "into_iter", adaptors)
            if d.startswith("core::iter::") and e[3]:
                adaptors.append((d.rsplit("::", 1)[1], e[3][1:] if len(e[3]) > 1 else ()))
                e = e[3][0]
                continue
        return None
    return None


def iter_base(it):
    """The source iterator expression underneath the core::iter adaptors of `it`."""
    e = it
    n = 0
    while isinstance(e, tuple) and n < 16:
        n += 1
        if e[0] == "ref":
            e = e[1]
            continue
        if e[0] == "call" and e[2].startswith("core::iter::") and e[2] != "core::iter::IntoIterator::into_iter" and e[3]:
            e = e[3][0]
            continue
        if e[0] == "call" and e[2] == "core::iter::IntoIterator::into_iter" and e[3]:
            a = e[3][0]
            inner = a[1] if a[0] == "ref" else a
            if inner[0] == "call" and inner[2].startswith("core::iter::") and inner[2] != "core::iter::IntoIterator::into_iter":
                e = a
                continue
        return e
    return e


# (`collect` into a Vec that is iterated afterwards hands the same elements on, one for one)
PASS_THROUGH = ("filter", "take_while", "skip_while", "inspect", "peekable", "fuse", "by_ref", "skip", "take", "step_by", "chain", "collect")


def adapted_elem(closures, nextcall):
    """Element delivered by `next` on an adapted hash iterator, expressed over the element U of the
    underlying iterator (so that `for (k, v) in map.iter()`, `map.keys().copied()`, `map.iter().map(f)`
    name the same things the same way).  Returns (R, U, changed) or None."""
    it = nextcall[3][0]
    src = iter_source(it)
    if src is None or src[0] not in ("map", "table"):
        return None
    base = iter_base(it)
    U = mk_field(("variant", ("call", nextcall[1], "core::iter::Iterator::next", (mk_ref(base),)), "Some", 1), "0", "")
    x = U
    changed = False
    m = src[2]
    if m in ("keys", "into_keys"):
        x = mk_field(U, "0", "")
        changed = True
    elif m in ("values", "into_values", "values_mut"):
        x = mk_field(U, "1", "")
        changed = True
    for name, cargs in reversed(src[-1]):
        if name in ("copied", "cloned"):
            x = mk_deref(x)
            changed = True
        elif name == "map" and cargs:
            cl = closures.run(cargs[0], params={2: x})
            if cl is None or cl["effects"] or len(cl["returns"]) != 1:
                return None
            x = cl["returns"][0]
            changed = True
        elif name == "filter_map" and cargs:
            cl = closures.run(cargs[0], params={2: x})
            if cl is None or cl["effects"]:
                return None
            somes = set(r[5][0][1] for r in cl["returns"] if r[0] == "agg" and r[2] == "core::option::Option" and r[3] == "Some" and r[5])
            others = [r for r in cl["returns"] if not (r[0] == "agg" and r[2] == "core::option::Option")]
            if len(somes) != 1 or others:
                return None
            x = next(iter(somes))
            changed = True
        elif name in PASS_THROUGH:
            continue
        else:
            return None
    return x, U, changed


ALL_KINDS = frozenset(("0", "1", "2"))


def _admitted_kinds(cl, K):
    """Kinds admitted by a predicate summary whose only subject is the kind expression K; None if it looks at anything else."""
    admitted = set()
    for pcs, ret, vf in cl["vpaths"]:
        kinds = set(ALL_KINDS)
        for e, v in vf:
            if e == K:
                kinds &= {v}
            else:
                return None
        for c, truth in pcs:
            if c[0] == "bin" and c[1] in ("Eq", "Ne") and c[2] == ("discr", K) and is_const(c[3]):
                same = (c[1] == "Eq") == truth
                kinds = (kinds & {c[3][1]}) if same else (kinds - {c[3][1]})
            else:
                return None
        if is_const(ret):
            if ret[1] == "1":
                admitted |= kinds
            continue
        r, neg = ret, False
        if r[0] == "un" and r[1] == "Not":
            r, neg = r[2], True
        if r[0] == "bin" and r[1] in ("Eq", "Ne") and r[2] == ("discr", K) and is_const(r[3]):
            same = (r[1] == "Eq") != neg
            admitted |= (kinds & {r[3][1]}) if same else (kinds - {r[3][1]})
            continue
        return None
    return frozenset(admitted)


def filter_kinds(closures, closure, x):
    """Kinds of link `x` that the filter predicate `closure` can let through, or None if the predicate looks
    at anything but the link's kind (then it may hide entries of every kind)."""
    cl = closures.run(closure, params={2: ("ref", x)})
    if cl is None or cl["effects"]:
        return None
    return _admitted_kinds(cl, mk_field(x, "kind", LINK))


def loop_kinds(closures, nextcall):
    """(admitted kinds, problem) for a loop over a link table driven by `nextcall`."""
    src = iter_source(nextcall[3][0])
    ae = adapted_elem(closures, nextcall)
    kinds = ALL_KINDS
    for idx, (name, cargs) in enumerate(src[-1]):
        if name == "filter" and cargs:
            # element seen by this filter = element produced by the adaptors below it
            below = ("call", nextcall[1], "core::iter::Iterator::next", (_strip_outer(nextcall[3][0], idx + 1),))
            ae_b = adapted_elem(closures, below)
            x = ae_b[0] if ae_b is not None else None
            if x is None:
                return None, "filter"
            # a filter over (k, v) pairs or over keys: find the link
            link = x
            fk = filter_kinds(closures, cargs[0], link)
            if fk is None and x[0] != "agg":
                fk = filter_kinds_pair(closures, cargs[0], x)
            if fk is None:
                return None, "filter"
            kinds = kinds & fk
        elif name in ("take", "skip", "step_by", "take_while", "skip_while"):
            return None, name
    return kinds, None


def filter_kinds_pair(closures, closure, x):
    """Same as filter_kinds for predicates over (&Link, &count) pairs."""
    cl = closures.run(closure, params={2: ("ref", x)})
    if cl is None or cl["effects"]:
        return None
    link = mk_deref(mk_field(x, "0", ""))
    return _admitted_kinds(cl, mk_field(link, "kind", LINK))


def _strip_outer(it, n):
    """Iterator expression with its n outermost core::iter adaptors removed."""
    e = it
    k = 0
    while k < n and isinstance(e, tuple):
        if e[0] == "ref":
            e = e[1]
            continue
        if e[0] == "call" and e[2].startswith("core::iter::") and e[3]:
            if e[2] == "core::iter::IntoIterator::into_iter":
                e = e[3][0]
                continue
            e = e[3][0]
            k += 1
            continue
        break
    return mk_ref(e) if e[0] != "ref" else e


class ClosureCache:
    def __init__(self, program):
        self.program = program
        self.cache = {}

    def run(self, closure_expr, params=None):
        """Interpret the body of a closure with its environment bound to the aggregate built at
        the call site.  Returns a dict: returns=[expr], effects=[Ev], stores=[Ev]."""
        # a closure / fn item coerced to a fn pointer (`let keep: fn(&K) -> bool = |k| ..;`) is that callable
        while closure_expr[0] == "cast" and str(closure_expr[1]).startswith(("Coerce:ClosureFnPointer", "Coerce:ReifyFnPointer")):
            closure_expr = closure_expr[2]
        path = closure_path(closure_expr)
        fn_item = False
        if path is None:
            ce = closure_expr[1] if closure_expr[0] == "ref" else closure_expr
            if ce[0] == "fn" and self.program.facts.fn(ce[1]) is not None:
                # a function of the crate used as the predicate / mapper: its first parameter is the item
                path, fn_item = ce[1], True
            else:
                return None
        agg = closure_expr[1] if closure_expr[0] == "ref" else closure_expr
        key = (path, agg, tuple(sorted((params or {}).items())))
        if key in self.cache:
            return self.cache[key]
        fn = self.program.facts.fn(path)
        if fn is None:
            return None
        g = self.program.inlined(fn)
        rec = Recorder()
        if fn_item:
            pe = {k - 1: v for k, v in (params or {}).items()}
            params = None
        else:
            pe = {1: agg}
            # closures take their environment by value, by & or by &mut: bind both views
            envty = g.locals[1]["ty"] if len(g.locals) > 1 else {}
            if envty.get("k") in ("ref", "refmut"):
                pe = {1: ("ref", agg)}
        if params:
            pe.update(params)
        eng = Engine(g, [rec], param_exprs=pe, name=path, max_states=20000, record_pc=True).run()
        out = {"paths": rec.paths, "vpaths": rec.vpaths, "returns": rec.returns, "effects": rec.effects, "stores": rec.stores, "reads": rec.reads, "truncated": eng.truncated, "path": path,
               "where": "%s:%s" % (fn.file, fn.line)}
        self.cache[key] = out
        return out


class Recorder:
    PURE = ("get", "pure", "log", "return", "resume", "ptr_eq", "panic")

    def __init__(self):
        self.returns = []
        self.effects = []
        self.stores = []
        self.reads = []
        self.paths = []
        self.vpaths = []

    def on_event(self, eng, ev, st):
        if ev.kind == "return":
            if ev.value not in self.returns:
                self.returns.append(ev.value)
            pcs = tuple(sorted(((f[1], f[2]) for f in st.flags if f[0] == "pc"), key=repr))
            if (pcs, ev.value) not in self.paths:
                self.paths.append((pcs, ev.value))
            vf = tuple(sorted(st.var, key=repr))
            if (pcs, ev.value, vf) not in self.vpaths:
                self.vpaths.append((pcs, ev.value, vf))
        elif ev.kind == "store":
            self.stores.append(ev)
            self.effects.append(ev)
        elif ev.kind == "tbl" and ev.op in ("contains_key", "contains", "get", "len", "is_empty"):
            self.reads.append(ev)
        elif ev.kind not in self.PURE:
            self.effects.append(ev)
        return None


ACC_BIN = {"Add": "plus", "AddUnchecked": "plus", "AddWithOverflow": "plus", "Sub": "minus", "SubUnchecked": "minus", "SubWithOverflow": "minus",
           "BitOr": "or", "BitAnd": "and", "BitXor": "xor", "Mul": "mul", "MulUnchecked": "mul", "MulWithOverflow": "mul"}
ACC_CALL = {"wrapping_add": "plus", "saturating_add": "plus!", "wrapping_sub": "minus", "saturating_sub": "minus!", "max": "max", "min": "min", "wrapping_mul": "mul", "saturating_mul": "mul!"}


def acc_families(e, acc):
    """Operations between the root of `e` and the (single) occurrence of the accumulator `acc` in it: a set of families
    ('plus', 'minus!', 'other:..'), frozenset() when e is acc itself, None when acc does not occur, 'multi' when it
    occurs more than once."""
    if e == acc:
        return frozenset()
    if not isinstance(e, tuple) or not mentions(e, lambda x: x == acc):
        return None
    if e[0] == "bin":
        ra, rb = acc_families(e[2], acc), acc_families(e[3], acc)
        if ra is not None and rb is not None:
            return "multi"
        r = ra if ra is not None else rb
        if r == "multi":
            return r
        fam = ACC_BIN.get(e[1], "other:%s" % e[1])
        if fam == "minus" and ra is None:
            fam = "other:reversed-subtraction"
        return r | {fam}
    if e[0] == "field" and e[1][0] == "bin" and e[1][1].endswith("WithOverflow") and e[2] in ("0", 0):
        return acc_families(e[1], acc)
    if e[0] == "call" and e[2].startswith(("core::num::", "core::cmp::")) and e[3]:
        rs = [acc_families(a, acc) for a in e[3]]
        hit = [r for r in rs if r is not None]
        if len(hit) > 1 or hit[0] == "multi":
            return "multi"
        m = e[2].rsplit("::", 1)[-1]
        fam = ACC_CALL.get(m, "other:%s" % m)
        if fam.startswith("minus") and rs[0] is None:
            fam = "other:reversed-subtraction"
        return hit[0] | {fam}
    if e[0] == "cast":
        return acc_families(e[2], acc)
    return frozenset({"other:%s" % e[0]})


def families_commute(fams):
    plain = {f.rstrip("!") for f in fams}
    clamped = any(f.endswith("!") for f in fams)
    if any(f.startswith("other:") for f in fams):
        return False
    return len(plain) <= 1 or (plain <= {"plus", "minus"} and not clamped)


def strong_vs_value(e, elem):
    """Match `strong(key box of elem) <op> value of elem`; returns op with strong on the left."""
    from interp import SWAP
    if e[0] != "bin" or e[1] not in SWAP:
        return None
    op, x, y = e[1], e[2], e[3]
    g = counter_read(x)
    if g is None:
        g2 = counter_read(y)
        if g2 is None:
            return None
        op, x, y, g = SWAP[op], y, x, g2
    if g[2] != "strong":
        return None
    key = mk_field(elem, "0", "")
    val = mk_field(elem, "1", "")
    kb = mk_field(mk_deref(key), "ptr", LINK)
    if g[1] != kb:
        return ("wrong-box", op)
    if y == mk_deref(val) or y == val:
        return ("ok", op)
    if is_const(y):
        return ("const", op, y[1])
    return ("other", op, y)


class Verdict:
    """GATE-4, GATE-6, PROV-1."""
    id = "VERDICT"

    def __init__(self, closures, fn):
        self.closures = closures
        self.fn = fn
        self.verdict_sites = set()
        self.lowering_sites = set()

    def _per_key(self, eng, st, M, b, cl=None, arg=("param", 2)):
        """The verdict treats every key of the map as a member and compares the allocation's strong count with the
        count stored under that key.  If the trace registered a second, non-canonical key for an allocation (its own
        Loopback entries), that comparison must be restricted to canonical keys."""
        if ("map_multikey", M) not in st.flags:
            return
        guarded = False
        if cl is not None:
            elem = arg[1] if arg[0] == "ref" else arg
            K = mk_field(mk_deref(mk_field(elem, "0", "")), "kind", LINK)
            live = [(pcs, ret, vf) for pcs, ret, vf in cl["vpaths"] if not (is_const(ret) and ret[1] == "0")]
            guarded = bool(live) and all((K, "0") in set(vf) or any(c[0] == "bin" and c[1] == "Eq" and c[2] == ("discr", K) and is_const(c[3], 0) and t for c, t in pcs) for pcs, ret, vf in live)
        if not guarded:
            eng.violate("GATE-6", "verdict-over-non-canonical-keys", "the trace registers an allocation's own Loopback entries under a second key, and the orphan test compares the allocation's strong count with the count under every key: a member with a recorded no-op self-adoption and two or more owners in the group is judged externally owned, the orphaned group is never collected", b, st)

    # ---- the verdict ----------------------------------------------------
    def on_tbl(self, eng, ev, st):
        # iterating the verdict's map after a positive verdict = group teardown has started
        if ev.get("table") is None and ev.op in ("iter", "into_iter", "keys", "drain") and ev.recv is not None:
            M = mk_deref(ev.recv)
            if ("verdict", M) in st.flags:
                return add(st, ("group_iter", M))
        return None

    def on_iter(self, eng, ev, st):
        if ev.op == "into_iter" and ev.recv is not None:
            M = mk_deref(ev.recv) if ev.recv[0] == "ref" else ev.recv
            if ("verdict", M) in st.flags:
                return add(st, ("group_iter", M))
        return None

    def on_assume_call(self, eng, st, c, truth, b):
        d = c[2]
        if d.startswith("hashbrown::") and d.endswith("::is_empty") and c[3] and table_of(c[3][0]) is None and truth:
            # an empty trace result: nothing to compare
            return add(st, ("verdict_checked", mk_deref(c[3][0])))
        if d not in ("core::iter::Iterator::any", "core::iter::Iterator::all") or len(c[3]) < 2:
            return None
        src = iter_source(c[3][0])
        if src is None or src[0] != "map":
            return None
        # what the predicate is handed: the map's entry, as the adaptors in front of `any` reshape it
        # (`iter().map(Counts::of).any(Counts::externally_owned)`)
        seen = ("param", 2)
        for name, cargs in reversed(src[-1]):
            if name in ("copied", "cloned"):
                seen = mk_deref(seen)
            elif name == "map" and cargs:
                mc = self.closures.run(cargs[0], params={2: seen})
                if mc is None or mc["effects"] or len(mc["returns"]) != 1:
                    return None
                seen = mc["returns"][0]
            elif name in PASS_THROUGH:
                continue
            else:
                return None
        cl = self.closures.run(c[3][1], params={2: seen})
        if cl is None:
            return None
        M = src[1]
        elem = ("param", 2)
        verdicts = [strong_vs_value(r, elem) for r in cl["returns"]]
        if not any(v is not None for v in verdicts):
            # the comparison may sit in a branch condition of the closure (`a > b && other`, if/else ...)
            def reads_strong(e):
                return mentions(e, lambda x: counter_read(x) is not None and counter_read(x)[2] == "strong")
            branchy = any(reads_strong(c) for pcs, r in cl["paths"] for c, _t in pcs) or any(reads_strong(r) for r in cl["returns"])
            if not branchy:
                return None  # no strong count involved: not the orphan test
            self.verdict_sites.add(b)
            eng.obl("GATE-6", "verdict", b)
            eng.violate("GATE-6", "verdict-predicate-shape", "the orphan-test predicate (%s) is not the single comparison `strong > traced count`: extra conditions or branches change which groups are judged orphaned" % cl["where"], b, st)
            return add(st, ("verdict_checked", M))
        self.verdict_sites.add(b)
        eng.obl("GATE-6", "verdict", b)
        where = cl["where"]
        if cl["effects"]:
            eng.violate("GATE-6", "verdict-closure-has-effects", "the orphan-test predicate (%s) has side effects (%s)" % (where, cl["effects"][0].kind), b, st)
        if len(cl["returns"]) != 1:
            eng.violate("GATE-6", "verdict-predicate-shape", "the orphan-test predicate (%s) is not a single comparison of a member's strong count with its group-owned count" % where, b, st)
            return add(st, ("verdict_checked", M))
        v = verdicts[0]
        is_any = d.endswith("any")
        # accepted: any(strong > owned) false  <=>  all(strong <= owned) true  => orphaned
        good = (is_any and v[0] == "ok" and v[1] == "Gt") or ((not is_any) and v[0] == "ok" and v[1] == "Le")
        if not good:
            eng.violate("GATE-6", "verdict-predicate", "the orphan test (%s) is `%s(strong %s %s)`; the group is orphaned iff no member has strong > its own traced count" % (
                where, "any" if is_any else "all", v[1], "count" if v[0] == "ok" else (v[2] if v[0] == "const" else "something else")), b, st)
            return add(st, ("verdict_checked", M))
        orphaned = (not truth) if is_any else truth
        for f in st.flags:
            if f[0] == "anyres" and f[1] == M and f[2] != orphaned:
                return False  # same predicate over the same unchanged map and counts cannot flip
        st = add(st, ("anyres", M, orphaned))
        self._per_key(eng, st, M, b, cl)
        if orphaned:
            return add(st, ("verdict", M))
        return add(st, ("verdict_checked", M))

    def on_event(self, eng, ev, st):
        if ev.kind in ("set", "tblwrite", "user", "handle_drop", "indirect") and any(f[0] in ("anyres", "vd_iter", "vd_passed", "vd_loop") for f in st.flags):
            return rem(st, lambda f: f[0] in ("anyres", "vd_iter", "vd_passed", "vd_loop"))
        return None

    # ---- the verdict written as find(..) ----------------------------------
    def on_variant(self, eng, st, inner, v, b):
        # `iter().map(..).max()` / `min()` yielding None: the trace result is empty, there is nothing to compare
        if inner[0] == "call" and inner[2] in ("core::iter::Iterator::max", "core::iter::Iterator::min") and len(inner[3]) == 1 and v == "0":
            src0 = iter_source(inner[3][0])
            if src0 is not None and src0[0] == "map":
                return add(st, ("verdict_checked", src0[1]))
        if inner[0] == "call" and inner[2] in ("core::iter::Iterator::find", "core::iter::Iterator::position", "core::iter::Iterator::find_map") and len(inner[3]) >= 2 and v in ("0", "1"):
            src = iter_source(inner[3][0])
            if src is None or src[0] != "map":
                return None
            M = src[1]
            # `find` passes a reference to the item
            arg = ("ref", ("param", 2)) if inner[2].endswith("::find") else ("param", 2)
            cl = self.closures.run(inner[3][1], params={2: arg})
            if cl is None:
                return None
            elem = ("param", 2)
            verdicts = [strong_vs_value(r, elem) for r in cl["returns"]]
            if not any(x is not None for x in verdicts):
                return None
            self.verdict_sites.add(b)
            eng.obl("GATE-6", "verdict", b)
            if cl["effects"] or len(cl["returns"]) != 1 or not (verdicts[0][0] == "ok" and verdicts[0][1] == "Gt"):
                eng.violate("GATE-6", "verdict-predicate", "the orphan test (%s) searches for something other than `strong > traced count` (or its predicate has effects)" % cl["where"], b, st)
                return add(st, ("verdict_checked", M))
            self._per_key(eng, st, M, b, cl, arg)
            if v == "0":
                return add(st, ("verdict", M), ("anyres", M, True))
            return add(st, ("verdict_checked", M), ("anyres", M, False))
        # the verdict written as an explicit loop over the map: bookkeeping per iteration
        if inner[0] == "call" and inner[2] == "core::iter::Iterator::next":
            src = iter_source(inner[3][0])
            if src is None or src[0] != "map" or src[-1]:
                return None
            M, N = src[1], inner[1]
            if v == "1":
                return add(st, ("vd_iter", M, N))
            if v == "0":
                started = any(f[0] in ("vd_passed", "vd_loop") and f[1] == M and f[2] == N for f in st.flags)
                broken = any(f[0] == "vd_broken" and f[1] == M and f[2] == N for f in st.flags)
                st2 = rem(st, lambda f: f[0] in ("vd_iter", "vd_passed", "vd_loop", "vd_broken") and f[1] == M and f[2] == N)
                if started and not broken:
                    self.verdict_sites.add(b)
                    eng.obl("GATE-6", "verdict:loop", b)
                    self._per_key(eng, st, M, b)
                    return add(st2, ("verdict", M), ("anyres", M, True))
                return st2
        return None

    def _fold_verdict(self, eng, st, op, x, y, truth, b):
        """`map.iter().fold(0, |n, (m, &owned)| n + m.strong().saturating_sub(owned)) > 0`: the number of strong references
        the group does not hold itself; the group is orphaned iff it is zero."""
        # one field of a struct / tuple folded over the members (`fold(Census::default(), |c, m| Census { members: c.members + 1,
        # outside: c.outside + usize::from(m.strong() > owned) })`, then `census.outside == 0`)
        fname = None
        if x[0] == "field" and x[1][0] == "call" and x[1][2] == "core::iter::Iterator::fold" and len(x[1][3]) == 3:
            fname, x = x[2], x[1]
        is_fold = x[0] == "call" and x[2] == "core::iter::Iterator::fold" and len(x[3]) == 3
        is_sum = x[0] == "call" and x[2] == "core::iter::Iterator::sum" and len(x[3]) == 1
        if x[0] == "field" and x[2] in ("0", 0) and x[1][0] == "variant" and x[1][2] == "Some" and x[1][1][0] == "call" and x[1][1][2] == "core::iter::Iterator::max" and len(x[1][1][3]) == 1:
            # `iter().map(|(m, &owned)| m.strong().saturating_sub(owned)).max()` matched against `Some(0)`: the largest
            # number of outside references any member has; zero for all of them iff it is zero
            x = x[1][1]
            is_sum = True
        if fname is not None and is_fold and is_const(y) and y[1] in ("0", "1"):
            # a field that counts the members (`members: c.members + 1`) tested for zero: the trace result is empty
            src0 = iter_source(x[3][0])
            cl0 = self.closures.run(x[3][2], params={2: ("param", 2), 3: ("param", 3)}) if src0 is not None and src0[0] == "map" else None
            if cl0 is not None and len(cl0["returns"]) == 1 and cl0["returns"][0][0] == "agg":
                rf0 = dict(cl0["returns"][0][5]).get(fname)
                if rf0 is not None and rf0[0] == "bin" and rf0[1] in ("Add", "AddUnchecked") and is_const(rf0[3], 1) and rf0[2][0] == "field" and rf0[2][1] == ("param", 2) and rf0[2][2] == fname:
                    from interp import classes_for
                    if classes_for(op, y[1], truth) == frozenset("Z"):
                        return add(st, ("verdict_checked", src0[1]))
                    return None
        if not ((is_fold or is_sum) and is_const(y, 0)):
            return None
        src = iter_source(x[3][0])
        if src is None or src[0] != "map":
            return None
        M = src[1]
        acc, elem = ("param", 2), ("param", 3)
        if is_fold:
            if src[-1]:
                return None
            cl = self.closures.run(x[3][2], params={2: acc, 3: elem})
        else:
            # `iter().map(|(m, &owned)| m.strong().saturating_sub(owned)).sum()`: the same sum, one term per member
            if len(src[-1]) != 1 or src[-1][0][0] != "map" or not src[-1][0][1]:
                return None
            cl = self.closures.run(src[-1][0][1][0], params={2: elem})
            if cl is not None:
                cl = dict(cl, returns=[("bin", "Add", acc, r) for r in cl["returns"]])
        if cl is None:
            return None
        sel = cl["returns"]
        if fname is not None and len(sel) == 1 and sel[0][0] == "agg":
            sel = [e for n_, e in sel[0][5] if n_ == fname]      # (a count of the members is not the orphan test)
        reads_strong = any(mentions(r, lambda e: counter_read(e) is not None and counter_read(e)[2] == "strong") for r in sel)
        if not reads_strong:
            return None
        self.verdict_sites.add(b)
        eng.obl("GATE-6", "verdict", b)
        good = False
        init_ok = is_sum or is_const(x[3][1], 0)
        if fname is not None and len(cl["returns"]) == 1 and cl["returns"][0][0] == "agg":
            flds = dict(cl["returns"][0][5])
            rf = flds.get(fname)
            accf = [e for e in ([rf[2], rf[3]] if rf is not None and rf[0] == "bin" else []) if e[0] == "field" and e[1] == acc and e[2] == fname]
            if rf is None or not accf:
                cl = dict(cl, returns=[("unk", "field")])
            else:
                cl = dict(cl, returns=[("bin", rf[1], acc, rf[3] if rf[2] == accf[0] else rf[2])])
            i0 = x[3][1]
            def zero(e):      # 0, or `usize::default()`
                return is_const(e, 0) or (e[0] == "call" and e[2].endswith("::default") and not e[3])
            init_ok = (i0[0] == "agg" and zero(dict(i0[5]).get(fname, ("unk", "")))) or zero(i0)
        if len(cl["returns"]) == 1 and not cl["effects"] and init_ok:
            r = cl["returns"][0]
            if r[0] == "field" and r[1][0] == "bin" and r[2] in ("0", 0):
                r = r[1]
            if r[0] == "bin" and r[1] in ("Add", "AddUnchecked", "AddWithOverflow") and acc in (r[2], r[3]):
                term = r[3] if r[2] == acc else r[2]
                if term[0] == "call" and term[2].startswith("core::num::") and term[2].endswith("::saturating_sub") and len(term[3]) == 2:
                    g = counter_read(term[3][0])
                    kb = mk_field(mk_deref(mk_field(elem, "0", "")), "ptr", LINK)
                    val = mk_field(elem, "1", "")
                    good = g is not None and g[2] == "strong" and g[1] == kb and term[3][1] in (val, mk_deref(val))
                # ... or the number of members with an outside reference: `+ usize::from(strong > owned)`
                t2 = term
                while (t2[0] == "call" and t2[2] in ("core::convert::From::from", "core::convert::Into::into") and len(t2[3]) == 1) or t2[0] == "cast":
                    t2 = t2[3][0] if t2[0] == "call" else t2[2]
                sv = strong_vs_value(t2, elem)
                if sv is not None and sv[0] == "ok" and sv[1] == "Gt":
                    good = True
        if not good:
            eng.violate("GATE-6", "verdict-predicate-shape", "the orphan test (%s) folds the members' counts into one number, but not as the sum of `strong.saturating_sub(traced count)` from 0: which groups it judges orphaned differs from `no member has strong > its traced count`" % cl["where"], b, st)
            return add(st, ("verdict_checked", M))
        if op in ("Gt", "Ne"):
            orphaned = not truth
        elif op in ("Eq", "Le"):
            orphaned = truth
        else:
            eng.violate("GATE-6", "verdict-predicate", "the orphan test compares the number of outside references with 0 using `%s`" % op, b, st)
            return add(st, ("verdict_checked", M))
        self._per_key(eng, st, M, b)
        if orphaned:
            return add(st, ("verdict", M), ("anyres", M, True))
        return add(st, ("verdict_checked", M), ("anyres", M, False))

    def on_assume_cmp(self, eng, st, op, x, y, truth, b):
        from interp import SWAP
        fv = self._fold_verdict(eng, st, op, x, y, truth, b)
        if fv is not None:
            return fv
        g = counter_read(x)
        if g is None:
            g2 = counter_read(y)
            if g2 is None:
                return None
            op, x, y, g = SWAP[op], y, x, g2
        if g[2] != "strong":
            return None
        # the orphan test applied to one member ahead of the scan: `strong(X) > M[Forward(X)]` proves an outside owner
        # (the scan would find the same entry); anything else about a single entry proves nothing
        pt = y[1] if y[0] == "deref" else y
        if pt[0] == "field" and pt[2] == "0" and pt[1][0] == "variant" and pt[1][2] == "Some" and pt[1][1][0] == "call" \
                and pt[1][1][2].startswith("hashbrown::HashMap") and pt[1][1][2].endswith("::get") and len(pt[1][1][3]) >= 2:
            mref, kref = pt[1][1][3][0], pt[1][1][3][1]
            Mp = mk_deref(mref) if mref[0] == "ref" else mref
            key = kref[1] if kref[0] == "ref" else kref
            if table_of(mref) is None and key[0] == "agg" and key[2] == LINK:
                flds = dict(key[5])
                kd = flds.get("kind")
                if flds.get("ptr") == g[1] and kd is not None and kd[0] == "agg" and kd[3] == "Forward" and op in ("Gt", "Le"):
                    ext = truth if op == "Gt" else not truth
                    eng.obl("GATE-6", "verdict:point", b)
                    if ext:
                        if ("anyres", Mp, True) in st.flags:
                            return False     # the scan over the same unchanged map found no such member
                        return add(st, ("verdict_checked", Mp), ("anyres", Mp, False))
                    return None
            return None
        go = group_of(g[1])
        if go is None:
            return None
        M, N = go
        eo = elem_of(g[1])
        elem = eo[0]
        if g[1] != mk_field(mk_deref(mk_field(elem, "0", "")), "ptr", LINK):
            return None
        val = mk_field(elem, "1", "")
        if not (y == mk_deref(val) or y == val):
            return None
        # `traced <= strong` established for this member (a guard in front of a plain `strong - traced`)
        if (op in ("Ge", "Gt", "Eq") and truth) or (op in ("Lt", "Le") and not truth):
            st = add(st, ("traced_le_strong", g[1]))
            if ("vd_iter", M, N) not in st.flags:
                return st
        if ("vd_iter", M, N) not in st.flags:
            return None
        # normalise to: (strong > traced) is `ext`
        if op == "Gt":
            ext = truth
        elif op == "Le":
            ext = not truth
        else:
            eng.obl("GATE-6", "verdict:loop", b)
            eng.violate("GATE-6", "verdict-predicate", "the orphan test compares a member's strong count with its traced count using `%s`; the group is orphaned iff no member has strong > traced" % op, b, st)
            return add(st, ("vd_broken", M, N))
        eng.obl("GATE-6", "verdict:loop", b)
        st = rem(st, lambda f: f == ("vd_iter", M, N))
        if ext:
            return add(st, ("verdict_checked", M), ("vd_loop", M, N), ("anyres", M, False))
        return add(st, ("vd_passed", M, N), ("vd_loop", M, N))

    def on_site_reexec(self, eng, st, site):
        # an iteration of a verdict loop ended without comparing the member: the loop proves nothing
        hit = [f for f in st.flags if f[0] == "vd_iter" and f[2] == site and any(g[0] == "vd_loop" and g[1] == f[1] and g[2] == site for g in st.flags)]
        if hit:
            return add(st, *[("vd_broken", f[1], f[2]) for f in hit])
        return None

    # ---- group lowering -------------------------------------------------
    def on_set(self, eng, ev, st):
        if ev.field != "strong" or ev.cls in ("max", "one", "inc"):
            return None
        b = ev.box
        eo = elem_of(b)
        if eo is None:
            return None
        elem, it = eo
        src = iter_source(it)
        if src is None or src[0] != "map":
            return None
        M = src[1]
        self.lowering_sites.add(ev.b)
        eng.obl("GATE-4", "group-lowering", ev.b)
        eng.obl("PROV-1", "group-lowering", ev.b)
        if ("verdict", M) not in st.flags:
            eng.violate("GATE-4", "lowering-without-verdict", "group teardown lowers the strong count of a member of %s on a path where the orphan test for that map has not succeeded" % show(M), ev.b, st)
        # PROV-1: the amount
        key = mk_field(elem, "0", "")
        if b != mk_field(mk_deref(key), "ptr", LINK):
            return add(st, ("group_lowered", M))
        traced = mk_field(elem, "1", "")
        amount = None
        if ev.cls == "zero":
            amount = "zeroing"
        elif ev.cls == "dec":
            amount = self.trip_count(eng, ev, st)
        elif ev.cls == "sub":
            v = ev.value
            amount = v[3] if v[0] == "bin" else v[3][1]
        else:
            amount = ev.value
        ok = False
        if amount == "zeroing":
            ok = True
        elif isinstance(amount, tuple):
            ok = amount_is_traced(amount, traced, b, ev)
            # a plain `strong - traced` wraps when the trace attributed more references than exist (recorded adoptions
            # may exceed the handles: unadopt is optional): it needs min(traced, strong), saturation or a guard
            v = ev.value
            if ok and ev.cls == "sub" and v[0] == "bin" and v[1] in ("Sub", "SubUnchecked") and not is_const(amount, 0) and not bounded_by_strong(amount, b) \
                    and ("traced_le_strong", b) not in st.flags:
                eng.violate("PROV-1", "group-lowering-can-wrap", "group teardown stores `strong - %s` into a member's strong count without min(), saturation or a guard: when more adoptions are recorded than handles exist (unadopt is optional) the subtraction wraps and the member survives its group's teardown with a garbage count" % show(amount)[:60], ev.b, st)
        if not ok:
            eng.violate("PROV-1", "lower-amount-not-from-trace", "group teardown lowers the strong count of a member by %s, which does not derive from the count the trace attributed to that member (the orphan test compared `strong` with that traced count)" % (
                show(amount)[:160] if isinstance(amount, tuple) else "one per member"), ev.b, st)
        return add(st, ("group_lowered", M))

    def trip_count(self, eng, ev, st):
        """Bound of the innermost counting loop around a decrement, or None (one per element)."""
        fn = eng.fn
        loops = fn.loops(unwind=False)
        best = None
        for hdr, body in loops.items():
            if ev.b in body and (best is None or len(body) < len(loops[best])):
                best = hdr
        if best is None:
            return None
        body = loops[best]
        val = dict(st.val)
        for blk in sorted(body):
            t = fn.blocks[blk]["term"]
            if t["k"] == "call" and t["callee"] and t["callee"]["def"] == "core::iter::Iterator::next":
                v2 = dict(val)
                for s_ in fn.blocks[blk]["stmts"]:
                    if s_["k"] == "assign" and not s_["dst"]["p"] and s_["dst"]["l"] in eng.bi.dyn:
                        v2[s_["dst"]["l"]] = eng.bi.rvalue(s_["rv"], v2)
                it = eng.bi.operand(t["args"][0], v2)
                src = iter_source(it)
                if src is not None and src[0] == "range":
                    if is_const(src[1], 0):
                        return src[2]
                    return ("bin", "Sub", src[2], src[1])
                return None
        # `let mut left = n; while left > 0 { dec(); left -= 1 }`: the bound is the counter's initial value
        for blk in sorted(body):
            t = fn.blocks[blk]["term"]
            if t["k"] != "switch":
                continue
            v2 = dict(val)
            for s_ in fn.blocks[blk]["stmts"]:
                if s_["k"] == "assign" and not s_["dst"]["p"] and s_["dst"]["l"] in eng.bi.dyn:
                    v2[s_["dst"]["l"]] = eng.bi.rvalue(s_["rv"], v2)
            c = eng.bi.operand(t["discr"], v2)
            x = None
            if c[0] == "bin" and c[1] in ("Gt", "Ne") and is_const(c[3], 0):
                x = c[2]
            elif c[0] == "bin" and c[1] == "Lt" and is_const(c[2], 0):
                x = c[3]
            if x is None:
                continue
            k = 0
            while ((x[0] == "bin" and x[1] in ("Sub", "SubUnchecked") and is_const(x[3], 1)) or x[0] == "stepped") and k < 64:
                x = x[2] if x[0] == "bin" else x[1]
                k += 1
            if counter_read(x) is None:
                return x
        return None


def _carries(v, L, depth=0):
    """The stored value is the link itself (or an Option / tuple / struct wrapped around it), not something computed from it."""
    if v == L or v == mk_deref(L):
        return True
    if v[0] == "agg" and depth < 3:
        return any(_carries(fe, L, depth + 1) for _n, fe in v[5])
    return False


def _unit_valued(args):
    """`map.insert(key, ())`: a map used as a set."""
    if len(args) < 3:
        return False
    v = args[2]
    return (v[0] == "const" and (v[2] == "()" or v[1] is None and str(v[2]).strip() in ("()", "const ()"))) or (v[0] == "agg" and v[1] == "tuple" and not v[5])


def bounded_by_strong(a, box):
    """`min(.., strong(box))`: an amount that cannot exceed the member's own strong count."""
    if a[0] == "call" and a[2] in ("core::cmp::Ord::min", "core::cmp::min") and len(a[3]) == 2:
        for x in a[3]:
            g = counter_read(x)
            if g is not None and g[1] == box and g[2] == "strong":
                return True
        return any(bounded_by_strong(x, box) for x in a[3])
    g = counter_read(a)
    return g is not None and g[1] == box and g[2] == "strong"


def known_kind(st, kexpr):
    """The kind of a link on this path: tested positively, or the one kind left after the others were ruled out
    (`if kind == Forward {..} else if matches!(kind, Backward) {..}` leaves Loopback)."""
    v = st.variant(kexpr)
    if v is not None:
        return v
    left = ALL_KINDS - {f[2] for f in st.flags if f[0] == "notvar" and f[1] == kexpr}
    if len(left) == 1:
        return next(iter(left))
    return None


def amount_is_traced(a, traced, box, ev):
    """Accepted forms of a group-lowering amount: the traced count of the same element, 0, the minimum of
    such an amount and the member's own strong count, or `strong - traced` as the stored value."""
    if is_const(a, 0):
        return True
    if a == traced or a == mk_deref(traced):
        return True
    # the member's own strong count: after a successful orphan test (GATE-4) strong <= traced for every key, so this
    # is min(traced, strong) — the else-arm of an open-coded `if traced < strong { traced } else { strong }`
    g0 = counter_read(a)
    if g0 is not None and g0[1] == box and g0[2] == "strong":
        return True
    if a[0] == "call" and a[2] in ("core::cmp::Ord::min", "core::cmp::min") and len(a[3]) == 2:
        x, y = a[3]
        def is_strong(e):
            g = counter_read(e)
            return g is not None and g[1] == box and g[2] == "strong"
        if is_strong(x):
            return amount_is_traced(y, traced, box, ev)
        if is_strong(y):
            return amount_is_traced(x, traced, box, ev)
        return amount_is_traced(x, traced, box, ev) and amount_is_traced(y, traced, box, ev)
    # a direct write `strong - amount` / saturating variants
    if a[0] == "bin" and a[1] in ("Sub", "SubUnchecked"):
        g = counter_read(a[2])
        if g is not None and g[1] == box and g[2] == "strong":
            return amount_is_traced(a[3], traced, box, ev)
    if a[0] == "call" and a[2].startswith("core::num::<impl usize>::") and a[2].rsplit("::", 1)[1] in ("saturating_sub", "wrapping_sub") and len(a[3]) == 2:
        g = counter_read(a[3][0])
        if g is not None and g[1] == box and g[2] == "strong":
            return amount_is_traced(a[3][1], traced, box, ev)
    return False


def cursor_discipline(fn, b):
    """The worklist is read as `queue.get(cursor)` at block b.  Structural conditions under which every
    index is read at most once: the index operand is a plain copy of a local `c`; `c`'s address is never
    taken; inside the innermost loop around b every assignment to `c` is `c = c + k` (k >= 1); and no path
    leads from b back to b without passing such an assignment.  Returns None if they hold, else a reason."""
    t = fn.blocks[b]["term"]
    if t["k"] != "call" or len(t["args"]) < 2:
        return "not a call"
    a = t["args"][1]
    if a.get("k") not in ("copy", "move") or a["pl"]["p"]:
        return "index is not a local"
    cur = a["pl"]["l"]
    for s in reversed(fn.blocks[b]["stmts"]):
        if s["k"] == "assign" and not s["dst"]["p"] and s["dst"]["l"] == cur:
            rv = s["rv"]
            if rv["k"] == "use" and rv["op"].get("k") in ("copy", "move") and not rv["op"]["pl"]["p"]:
                cur = rv["op"]["pl"]["l"]
                continue
            return "index is computed, not a cursor"
    loops = [(len(body), h, body) for h, body in fn.loops(unwind=False).items() if b in body]
    if not loops:
        return "not in a loop"
    _, hdr, body = min(loops)
    steps = set()

    def is_step(blk_i, si):
        blk = fn.blocks[blk_i]
        s = blk["stmts"][si]
        rv = s["rv"]

        def operand_is_cur(o):
            return o.get("k") in ("copy", "move") and not o["pl"]["p"] and o["pl"]["l"] == cur

        def const_ge1(o):
            return o.get("k") == "const" and str(o.get("int", "")).isdigit() and int(o["int"]) >= 1

        def add_of_cur(rv2):
            return rv2["k"] == "bin" and rv2["op"] in ("Add", "AddWithOverflow", "AddUnchecked") and \
                ((operand_is_cur(rv2["a"]) and const_ge1(rv2["b"])) or (operand_is_cur(rv2["b"]) and const_ge1(rv2["a"])))
        if add_of_cur(rv):
            return True
        if rv["k"] == "use" and rv["op"].get("k") in ("copy", "move"):
            src = rv["op"]["pl"]["l"]
            cands = [blk_i] + [pb for _, pb in fn.preds(False)[blk_i]]
            for cb in cands:
                stmts = fn.blocks[cb]["stmts"] if cb != blk_i else blk["stmts"][:si]
                for t2 in reversed(stmts):
                    if t2["k"] == "assign" and not t2["dst"]["p"] and t2["dst"]["l"] == src:
                        return add_of_cur(t2["rv"])
        return False

    for bi, blk in enumerate(fn.blocks):
        for si, s in enumerate(blk["stmts"]):
            if s["k"] != "assign":
                continue
            rv = s["rv"]
            if rv["k"] in ("ref", "addr") and rv["pl"]["l"] == cur and (rv.get("mut") or rv["k"] == "addr"):
                return "the cursor's address is taken"
            if s["dst"]["l"] == cur and bi in body:
                if s["dst"]["p"] or not is_step(bi, si):
                    return "the cursor is written by something other than `cursor += k`"
                steps.add(bi)
        t2 = blk["term"]
        if t2["k"] == "call" and t2["dst"]["l"] == cur and bi in body:
            return "the cursor is written by a call"
    # every cycle through b passes a step
    seen = set()
    stack = [x for x in fn.succ_blocks(b, False) if x in body]
    while stack:
        x = stack.pop()
        if x in seen:
            continue
        seen.add(x)
        if x in steps:
            continue
        if x == b:
            return "a path returns to the read without advancing the cursor"
        stack.extend(y for y in fn.succ_blocks(x, False) if y in body)
    return None


def targets_only(kind):
    """All links of this (possibly multi-valued) kind are targets owned by the expanded node: Forward / Loopback."""
    return kind is not None and set(kind) <= {"0", "2"}


def adopters_only(kind):
    return kind is not None and set(kind) == {"1"}


def kind_name(kind):
    if kind is None:
        return "any"
    return "/".join(KIND_NAMES.get(k, k) for k in kind) if len(kind) > 1 else KIND_NAMES.get(kind, "any")


def elem_shape(tys):
    """How the payload of `next()` names the link and its count, from the type of the Option it returns:
    returns (link accessor, count accessor) as functions of the payload expression E."""
    t = tys.replace(" ", "")
    m = t[t.index("Option<") + 7:-1] if "Option<" in t else t
    def ref(x):
        return x.startswith("&")
    if m.startswith("("):
        inner = m[1:-1]
        # split at top-level comma
        depth_ = 0
        cut = None
        for i, ch in enumerate(inner):
            if ch in "<(":
                depth_ += 1
            elif ch in ">)":
                depth_ -= 1
            elif ch == "," and depth_ == 0:
                cut = i
                break
        if cut is None:
            return None
        a, b_ = inner[:cut], inner[cut + 1:]
        if "Link<" not in a:
            return None
        la = (lambda E: mk_deref(mk_field(E, "0", ""))) if ref(a) else (lambda E: mk_field(E, "0", ""))
        ca = (lambda E: mk_deref(mk_field(E, "1", ""))) if ref(b_) else (lambda E: mk_field(E, "1", ""))
        return la, ca
    if "Link<" in m:
        return ((lambda E: mk_deref(E)) if ref(m) else (lambda E: E)), None
    return None


class Trace:
    """GATE-7..10 on the worklist-driven trace."""
    id = "TRACE"

    def __init__(self, closures, program):
        self.closures = closures
        self.program = program
        self.expansions = set()
        self.elem_arms = set()
        self.pushes = set()
        self._key_fields = None
        self.forward_extended = False
        self.filtered_pass = False     # some pass over an expanded table is filtered by kind
        self.reg_kinds = set()         # kinds for which a registration site was seen (whole run)
        self.any_expansion = False
        self.cursor_sites = {}         # get-site -> None (discipline holds) | reason
        self.elem_info = {}            # payload expr -> (link expr, count expr | None) for elements of adapted passes
        self.filtered_elems = set()
        self.forward_pushed = False
        self.forward_regs = False
        self.unfollowed_site = None
        self.two_phase = False

    # fields of Link that its Hash / PartialEq read
    def key_fields(self):
        if self._key_fields is not None:
            return self._key_fields
        ks = set()
        n = 0
        for tr, name in (("core::hash::Hash", "hash"), ("core::cmp::PartialEq", "eq")):
            for f in self.program.trait_impl_method(tr, LINK, name):
                n += 1
                g = self.program.inlined(f)
                for blk in g.blocks:
                    for s in blk["stmts"]:
                        if s["k"] == "assign":
                            for pl in _places_rv(s["rv"]):
                                for p in pl["p"]:
                                    if isinstance(p, dict) and p.get("of") == LINK:
                                        ks.add(p["n"])
                    t = blk["term"]
                    if t["k"] == "call":
                        for a in t["args"]:
                            if a["k"] in ("copy", "move"):
                                for p in a["pl"]["p"]:
                                    if isinstance(p, dict) and p.get("of") == LINK:
                                        ks.add(p["n"])
        self._key_fields = (ks, n)
        return self._key_fields

    def on_vec(self, eng, ev, st):
        if ev.op == "pop":
            return None
        if ev.op == "extend" and len(ev.args) >= 2:
            W = mk_deref(ev.args[0])
            if not any(f[0] == "popped" and f[1] == W for f in st.flags):
                return None
            it = ev.args[1]
            src = iter_source(it)
            if src is None or src[0] != "table":
                return None
            self.pushes.add(ev.b)
            eng.obl("GATE-10", "worklist-push", ev.b)
            fake = ("call", ev.b, "core::iter::Iterator::next", (mk_ref(it) if it[0] != "ref" else it,))
            kinds, problem = loop_kinds(self.closures, fake)
            ks, n = self.key_fields()
            initv = [f[3] for f in st.flags if f[0] == "wl_initk" and f[1] == W and f[2] == "kind"]
            if "kind" in ks and (kinds is None or not initv or set(kinds) != {initv[0]}):
                eng.violate("GATE-10", "worklist-key-not-canonical:kind", "the visited set de-duplicates on Link.kind as well as the pointer, but links of kind %s are appended to the worklist here (initial element: %s): one object can be expanded once per kind value" % (
                    "/".join(KIND_NAMES.get(k, k) for k in sorted(kinds)) if kinds else "unknown", KIND_NAMES.get(initv[0], "?") if initv else "?"), ev.b, st)
            if kinds is not None and "0" in kinds:
                self.forward_extended = True
                self.forward_pushed = True
            return None
        if ev.op == "insert" and len(ev.args) >= 3:
            # `queue.insert(i, x)` queues x like a push does (what it costs is ITER-5's business)
            ev = Ev("vec", ev.b, ev.si, op="push", recv=ev.get("recv"), args=[ev.args[0], ev.args[2]], res=ev.get("res"), line=ev.get("line"))
        if ev.op == "push" and len(ev.args) >= 2:
            W = mk_deref(ev.args[0])
            # is W a worklist (popped somewhere on this path)?
            # the visit order: each node is appended once, right after the visited-set admitted it
            pv = ev.args[1]
            if any(f[0] == "popped" and f[2] == pv for f in st.flags) and (("vis_guard_ok", pv) in st.flags or any(f[0] == "vis_ins" and f[2] == pv for f in st.flags)) \
                    and not any(f[0] == "popped" and f[1] == W for f in st.flags):
                return add(st, ("vis_list", W))
            if not any(f[0] == "popped" and f[1] == W for f in st.flags):
                # a push before the crawl starts seeds the worklist (`frontier.push_back(root)` instead of `vec![root]`)
                first = ev.args[1]
                if first[0] == "agg" and first[2] == LINK and not any(f[0] == "wl_seed" and f[1] == W for f in st.flags):
                    fl = []
                    for k, fv in first[5]:
                        if fv[0] == "agg":
                            fl.append(("wl_seed", W, k, str(fv[4])))
                        elif k == "ptr":
                            fl.append(("wl_seedptr", W, fv))
                    return add(st, *fl) if fl else None
                return None
            v = ev.args[1]
            self.pushes.add(ev.b)
            eng.obl("GATE-10", "worklist-push", ev.b)
            ks, n = self.key_fields()
            # fields the expansion depends on: the box pointer only
            extra = sorted(k for k in ks if k != "ptr")
            if any(f[0] == "cursorq" and f[1] == W for f in st.flags):
                # cursor form: uniqueness of queue elements is established when they are queued
                eng.obl("GATE-9", "queue-push", ev.b)
                vptr = mk_field(v, "ptr", LINK)
                guards = [f for f in st.flags if f[0] == "seen_new" and (f[2] == v or f[2] == vptr)]
                seeded = [f for f in guards if any(g[0] == "seen_seed" and g[1] == f[1] for g in st.flags)]
                if not seeded:
                    eng.violate("GATE-9", "queued-without-seen-guard", "a link is appended to the trace queue without a successful `insert` of that node into the set that also holds the seed: the same object can be queued, and so expanded, more than once", ev.b, st)
                elif all(f[2] == vptr for f in seeded):
                    extra = []   # nodes are de-duplicated by pointer alone; other key fields do not matter
            for k in extra:
                kv = st.variant(mk_field(v, k, LINK))
                if kv is None and v[0] == "agg":
                    fv = dict(v[5]).get(k)
                    if fv is not None and fv[0] == "agg":
                        kv = str(fv[4])
                initv = [f[3] for f in st.flags if f[0] == "wl_initk" and f[1] == W and f[2] == k]
                if kv is None or not initv or kv != initv[0]:
                    eng.violate("GATE-10", "worklist-key-not-canonical:%s" % k,
                                "the visited set de-duplicates on Link.%s as well as the pointer, but the expansion only uses the pointer; a link with %s = %s enters the worklist here (initial element: %s), so one object can be expanded once per %s value and its table entries are counted more than once" % (
                                    k, k, KIND_NAMES.get(kv, "unknown") if kv is not None else "any value", KIND_NAMES.get(initv[0], initv[0]) if initv else "?", k), ev.b, st)
            for f in st.flags:
                if f[0] == "loopk" and f[2] and "0" in f[2] and mentions(v, lambda x, n=f[1]: x[0] == "call" and x[1] == n):
                    self.forward_pushed = True
            eo = elem_of(v)
            if eo is not None:
                return add(st, ("pushed", eo[0]))
        return None

    def on_store(self, eng, ev, st):
        # a link read out of an expanded node's table is parked somewhere by a plain store (a hand-rolled queue: an inline
        # array, a ring buffer ...): the trace rules only know Vec / VecDeque worklists and cannot follow it
        for f in st.flags:
            if f[0] in ("elem_pending", "elem_reg", "elem_acc_pending", "elem_absent") and isinstance(f[1], tuple) and _carries(ev.value, mk_field(f[1], "0", "")) \
                    and box_part(ev.place) is None and table_of(ev.place) is None:
                msg = "the trace queues a link in a container of the crate's own making (a plain store at %s:%s), which the worklist rules do not model" % (eng.where(ev.b)["file"], eng.where(ev.b)["line"])
                if msg not in eng.unfollowed:
                    eng.unfollowed.append(msg)
        # vec![first] initialisation: remember the key fields of the initial worklist element
        v = ev.value
        if v[0] == "agg" and v[1] == "array" and v[5]:
            first = v[5][0][1]
            if first[0] == "agg" and first[2] == LINK:
                root = _alloc_base(ev.place)
                if root is not None:
                    fl = []
                    for k, fv in first[5]:
                        if fv[0] == "agg":
                            fl.append(("wl_seed", root, k, str(fv[4])))
                        elif k == "ptr":
                            fl.append(("wl_seedptr", root, fv))
                    return add(st, *fl) if fl else None
        return None

    def on_variant(self, eng, st, inner, v, b):
        if inner[0] == "call" and inner[2].startswith("hashbrown::HashMap") and inner[2].endswith("::insert") and _unit_valued(inner[3]) and v in ("0", "1"):
            # `visited.insert(node, ())`: None <=> the node had not been visited
            if v == "0":
                for f in st.flags:
                    if f[0] == "popped" and (inner[3][1] == f[2] or inner[3][1] == mk_field(f[2], "ptr", LINK)):
                        return add(st, ("vis_guard_ok", f[2]), ("vis_set", mk_deref(inner[3][0])))
                return add(st, ("seen_new", mk_deref(inner[3][0]), inner[3][1]))
            return None
        # `let level = mem::take(&mut frontier); for node in level { .. frontier.push(..) }`: the worklist consumed a level at
        # a time by value.  Nothing de-duplicates at the point of removal, so -- as for the cursor form -- every element
        # must have been made unique when it was queued (a successful insert into the set that also holds the seed)
        if inner[0] == "call" and inner[2] == "core::iter::Iterator::next" and v == "1" and inner[3]:
            it = inner[3][0][1] if inner[3][0][0] == "ref" else inner[3][0]
            n_ = 0
            while it[0] == "call" and it[2] == "core::iter::IntoIterator::into_iter" and len(it[3]) == 1 and n_ < 3:
                it = it[3][0]
                n_ += 1
            if n_ and it[0] != "ref" and any(f[0] == "wl_seed" and (f[1] == it or sub(it, f[1])) for f in st.flags) \
                    and not mentions(it, lambda x_: x_[0] == "call" and (x_[2] == "core::iter::Iterator::next" or x_[2].startswith("hashbrown::"))):
                W = it
                P = mk_field(("variant", inner, "Some", 1), "0", "")
                fl = [("popped", W, P), ("cursorq", W, ("level", inner[1]))]
                for f in st.flags:
                    if f[0] == "wl_seed" and sub(W, f[1]):
                        fl.append(("wl_initk", W, f[2], f[3]))
                    if f[0] == "wl_seedptr" and sub(W, f[1]):
                        fl.append(("wl_initptr", W, f[2]))
                return add(st, *fl)
        # result of Vec::pop known to be Some: a node is about to be processed
        if inner[0] == "call" and is_pop_call(inner[2]) and v == "1":
            W = mk_deref(inner[3][0])
            P = mk_field(("variant", inner, "Some", 1), "0", "")
            fl = [("popped", W, P)]
            # seed facts recorded when the vec was initialised
            for f in st.flags:
                if f[0] == "wl_seed" and sub(W, f[1]):
                    fl.append(("wl_initk", W, f[2], f[3]))
            return add(st, *fl)
        # outcome of a keyed lookup in the result map
        for f in st.flags:
            if f[0] == "elem_lookup" and f[3] == inner:
                E, S, kind = f[1], f[2], f[5]
                if v == "0":
                    return add(rem(st, lambda g: g == f), ("elem_absent", E, S))
                if v == "1":
                    pend = [g for g in st.flags if g[0] == "elem_pending" and g[1] == E]
                    st2 = rem(st, lambda g: g == f or g in pend)
                    slot = mk_field(("variant", inner, "Some", 1), "0", "")
                    eng.obl("GATE-7", "registration:%s" % kind_name(kind), b)
                    eng.obl("GATE-8", "registration:%s" % kind_name(kind), b)
                    fl = [("elem_reg", E, S, f[4], kind, None)]
                    if f[4] == "same" and kind != "0":
                        fl.append(("map_multikey", S))
                    if not adopters_only(kind):
                        fl.append(("elem_acc_pending", E, slot))
                    return add(st2, *fl)
        # `while let Some(&node) = queue.get(cursor)`: an append-only queue read through a cursor
        if inner[0] == "call" and inner[2].startswith("core::slice::") and inner[2].endswith("::get") and v == "1" and len(inner[3]) >= 2:
            r = inner[3][0]
            if r[0] == "call" and r[2].endswith("::deref") and r[3]:
                r = r[3][0]
            W = mk_deref(r)
            P = mk_deref(mk_field(("variant", inner, "Some", 1), "0", ""))
            r2 = self._cursor_read(eng, st, W, P, inner[1])
            if r2 is not None:
                return r2
        # second phase of a two-phase trace: the members found by the crawl (the visited set) are walked, each once
        if inner[0] == "call" and inner[2] == "core::iter::Iterator::next" and v == "1":
            src = iter_source(inner[3][0])
            members = None
            if src is not None and src[0] == "map" and not src[-1]:
                members = src[1]
                # a slice borrowed from a Vec (`for node in &order` / `nodes: &[Link]`)
                for _ in range(3):
                    if members[0] == "deref":
                        members = members[1]
                    elif members[0] == "ref":
                        members = members[1]
                    elif members[0] == "call" and members[2].rsplit("::", 1)[-1] in ("deref", "as_slice", "as_ref", "iter", "borrow") and members[3]:
                        members = members[3][0]
                    else:
                        break
            if members is not None and (("vis_set", src[1]) in st.flags or ("vis_set", members) in st.flags or ("vis_list", members) in st.flags):
                dst = eng.fn.blocks[inner[1]]["term"]["dst"]
                shape = elem_shape(eng.fn.locals[dst["l"]]["ty"]["s"]) if not dst["p"] else None
                if shape is not None and shape[1] is None:
                    P = shape[0](mk_field(("variant", inner, "Some", 1), "0", ""))
                    self.two_phase = True
                    return add(st, ("popped", src[1], P), ("vis_guard_ok", P), ("phase2", P))
        # an element of an expanded node's table
        if inner[0] == "call" and inner[2] == "core::iter::Iterator::next" and v == "1":
            src = iter_source(inner[3][0])
            if src is not None and src[0] == "table":
                tb = src[1]
                if any(f[0] == "expanded" and f[2] == tb for f in st.flags):
                    eng.obl("GATE-7", "table-element", b)
                    if src[-1] or src[2] not in ("iter", "into_iter"):
                        kinds, problem = loop_kinds(self.closures, inner)
                        if kinds is None:
                            eng.violate("GATE-7", "table-iteration-restricted:%s" % problem, "the trace walks an expanded node's link table through `%s` with a condition that is not a pure test of the link kind: entries that are skipped are invisible to the orphan test" % problem, b, st)
                            kinds = frozenset()
                        self.filtered_pass = True
                        fl = [("loopk", inner[1], kinds)]
                        E = mk_field(("variant", inner, "Some", 1), "0", "")
                        # a `map` / `copied` stage changes what the loop body sees: the interpreter hands out the mapped
                        # element expressed over the underlying table entry (Adaptors), and so must this rule
                        ae = adapted_elem(self.closures, inner)
                        if ae is not None and ae[2]:
                            E = ae[0]
                        dst = eng.fn.blocks[inner[1]]["term"]["dst"]
                        shape = elem_shape(eng.fn.locals[dst["l"]]["ty"]["s"]) if not dst["p"] else None
                        if shape is not None and kinds:
                            self.elem_info[E] = (shape[0](E), shape[1](E) if shape[1] else None)
                            self.filtered_elems.add(E)
                            fl.append(("elem_pending", E, b, "filtered", "".join(sorted(kinds))))
                        return add(st, *fl)
                    E = mk_field(("variant", inner, "Some", 1), "0", "")
                    return add(st, ("elem_pending", E, b))
        return None

    def on_tbl(self, eng, ev, st):
        if ev.get("table") is not None:
            return None
        S = mk_deref(ev.recv) if ev.recv is not None else None
        if ev.op in ("contains", "contains_key") and len(ev.args) >= 2:
            for f in st.flags:
                if f[0] == "popped" and (mk_deref(ev.args[1]) == f[2] or ev.args[1] == f[2] or mk_deref(ev.args[1]) == mk_field(f[2], "ptr", LINK)):
                    return add(st, ("vis_test", S, f[2], ev.res))
            return None
        if ev.op == "insert" and (ev.container.endswith("HashSet") or _unit_valued(ev.args)) and len(ev.args) >= 2:
            for f in st.flags:
                if f[0] == "popped" and (ev.args[1] == f[2] or ev.args[1] == mk_field(f[2], "ptr", LINK)):
                    return add(st, ("vis_ins", S, f[2]), ("vis_set", S))
            if not any(f[0] == "popped" for f in st.flags):
                # before the crawl starts: the seed is marked as seen (cursor-queue form)
                return add(st, ("seen_seed", S, ev.args[1]))
            return None
        if ev.op in ("remove", "clear", "take", "retain", "drain") and ev.container.endswith("HashSet") and any(f[0] == "cursorq" for f in st.flags):
            eng.violate("GATE-9", "seen-set-shrinks", "the set that keeps queued nodes unique loses elements during the crawl (`%s`): a node can be queued and expanded again" % ev.op, ev.b, st)
            return None
        # lookups in the result map keyed by a table element: `if let Some(c) = map.get_mut(&k) { *c += n } else { map.insert(k, n) }`
        if ev.op in ("get_mut",) and len(ev.args) > 1:
            for f, E, target, kind in self._match(st, ev.args[1]):
                return add(st, ("elem_lookup", E, S, ev.res, target, kind))
            return None
        # writes into the result map keyed by a table element
        if ev.op in ("entry", "insert"):
            key = ev.args[1] if len(ev.args) > 1 else None
            if key is None:
                return None
            self._note_registration(eng, st, key)
            for f, E, target, kind in self._match(st, key):
                st = rem(st, lambda g: g == f)
                st = add(st, ("elem_reg", E, S, target, kind, ev.res if ev.op == "entry" else None))
                if target == "same" and kind != "0":
                    st = add(st, ("map_multikey", S))
                self.elem_arms.add((ev.b, kind))
                eng.obl("GATE-7", "registration:%s" % kind_name(kind), ev.b)
                eng.obl("GATE-8", "registration:%s" % kind_name(kind), ev.b)
                if ev.op == "insert":
                    absent = ("elem_absent", E, S) in st.flags
                    val = ev.args[2] if len(ev.args) > 2 else None
                    cnt = self._cnt(E)
                    if not absent:
                        # plain insert overwrites what other owners contributed (or resets an adopter that is also a target)
                        eng.violate("GATE-8", "overwrite-instead-of-accumulate", "the trace stores a count with `insert` without knowing the key is new, overwriting what other owners contributed", ev.b, st)
                    elif targets_only(kind) and val != cnt:
                        eng.violate("GATE-8", "or-insert-not-count", "a forward/loopback target first seen by the trace is not initialised with the entry's count", ev.b, st)
                    elif adopters_only(kind) and not is_const(val, 0):
                        eng.violate("GATE-8", "adopter-credited", "the trace credits a positive count to an adopter (backward link)", ev.b, st)
                    elif kind is None and not (is_const(val, 0)):
                        eng.violate("GATE-8", "overwrite-instead-of-accumulate", "the trace initialises an entry of unknown kind with a count", ev.b, st)
                return st
            return None
        if ev.op in ("and_modify", "or_insert", "or_default", "or_insert_with"):
            # entry API continuation: find the registration this entry belongs to
            ent = ev.recv
            for f in st.flags:
                if f[0] == "elem_reg" and f[5] is not None and (ent == f[5] or sub(ent, f[5])):
                    E, kind = f[1], f[4]
                    cnt = self._cnt(E)
                    if ev.op == "and_modify":
                        cl = self.closures.run(ev.args[1], params={2: ("param", 2)})
                        ok = False
                        if cl is not None and len(cl["stores"]) == 1:
                            s = cl["stores"][0]
                            old = mk_deref(("param", 2))
                            if s.place == old and s.value[0] == "bin" and s.value[1] in ("Add", "AddUnchecked") and ((s.value[2] == old and s.value[3] == cnt) or (s.value[3] == old and s.value[2] == cnt)):
                                ok = True
                        if targets_only(kind) and not ok:
                            eng.violate("GATE-8", "and-modify-not-accumulating", "the trace's update of an existing forward/loopback count is not `old + entry count`", ev.b, st)
                        if adopters_only(kind) and cl is not None and cl["stores"]:
                            eng.violate("GATE-8", "adopter-credited", "the trace credits a positive count to an adopter (backward link)", ev.b, st)
                        return add(st, ("elem_mod", E))
                    if ev.op == "or_insert":
                        init = ev.args[1] if len(ev.args) > 1 else None
                        modded = ("elem_mod", E) in st.flags
                        if targets_only(kind):
                            if modded and init != cnt:
                                eng.violate("GATE-8", "or-insert-not-count", "a forward/loopback target first seen by the trace is not initialised with the entry's count", ev.b, st)
                            if not modded and not is_const(init, 0):
                                # `*entry.or_insert(0) += c` idiom is completed by a store, checked there
                                eng.violate("GATE-8", "overwrite-instead-of-accumulate", "the trace initialises a forward/loopback count without accumulating into an existing one", ev.b, st)
                            if not modded and is_const(init, 0):
                                return add(st, ("elem_acc_pending", E, ev.res))
                        if adopters_only(kind) and init is not None and not is_const(init, 0):
                            eng.violate("GATE-8", "adopter-credited", "the trace credits a positive count to an adopter (backward link)", ev.b, st)
                    if ev.op == "or_default" and targets_only(kind):
                        if ("elem_mod", E) not in st.flags:
                            return add(st, ("elem_acc_pending", E, ev.res))
                    return None
        return None

    def _cursor_read(self, eng, st, W, P, site):
        """The queue W (seeded, append-only) is read at `site` through a cursor; P is the node read."""
        if not (any(f[0] == "wl_seed" and sub(W, f[1]) for f in st.flags) or any(f[0] == "cursorq" and f[1] == W for f in st.flags)):
            return None
        if site not in self.cursor_sites:
            self.cursor_sites[site] = cursor_discipline(eng.fn, site)
        fl = [("popped", W, P), ("cursorq", W, site)]
        for f in st.flags:
            if f[0] == "wl_seed" and sub(W, f[1]):
                fl.append(("wl_initk", W, f[2], f[3]))
            if f[0] == "wl_seedptr" and sub(W, f[1]):
                fl.append(("wl_initptr", W, f[2]))
        return add(st, *fl)

    def on_pure(self, eng, ev, st):
        # `let node = queue[cursor]`
        res = ev.get("res")
        if ev.callee == "core::ops::Index::index" and isinstance(res, tuple) and res[0] == "call" and len(res[3]) >= 2:
            W = mk_deref(res[3][0])
            return self._cursor_read(eng, st, W, mk_deref(res), res[1])
        return None

    def _lk(self, E):
        return self.elem_info[E][0] if E in self.elem_info else mk_deref(mk_field(E, "0", ""))

    def _cnt(self, E):
        return self.elem_info[E][1] if E in self.elem_info else mk_deref(mk_field(E, "1", ""))

    def _match(self, st, key):
        """Pending table elements that `key` (a Link expression or a reference to one) denotes."""
        out = []
        for f in list(st.flags):
            if f[0] == "elem_pending":
                E = f[1]
                lk = self._lk(E)
                target = None
                k2 = key[1] if key[0] == "ref" else key
                if key == lk or mk_deref(key) == lk or k2 == lk:
                    target = "same"
                elif k2[0] == "agg" and k2[2] == LINK and dict(k2[5]).get("ptr") == mk_field(lk, "ptr", LINK):
                    target = "as:" + str(dict(k2[5])["kind"][4]) if dict(k2[5]).get("kind", ("",))[0] == "agg" else "as:?"
                if target is None:
                    continue
                kexpr = mk_field(lk, "kind", LINK)
                kv = st.variant(kexpr)
                if kv is None and len(f) > 4:
                    kv = f[4]
                if kv is None:
                    excluded = {g[2] for g in st.flags if g[0] == "notvar" and g[1] == kexpr}
                    if excluded:
                        kv = "".join(sorted(ALL_KINDS - excluded)) or None
                out.append((f, E, target, kv))
        return out

    def _note_registration(self, eng, st, key):
        """Which link kinds does this keyed write into the result map cover?  (whole-run coverage for
        traces that walk a table in several kind-filtered passes)"""
        link = key
        if link[0] == "ref":
            link = link[1]
        if link[0] == "agg" and link[2] == LINK:
            p_ = dict(link[5]).get("ptr")
            if p_ is not None and p_[0] == "field" and p_[2] == "ptr":
                link = p_[1]
        eo = elem_of(link)
        if eo is None:
            return
        src = iter_source(eo[1])
        if src is None or src[0] != "table" or not any(f[0] == "expanded" and f[2] == src[1] for f in st.flags):
            return
        kv = known_kind(st, mk_field(link, "kind", LINK))
        if kv is not None:
            self.reg_kinds.add(kv)
            return
        site = None
        for f in st.flags:
            if f[0] == "loopk" and mentions(link, lambda x, n=f[1]: x[0] == "call" and x[1] == n):
                self.reg_kinds |= set(f[2])
                return
        self.reg_kinds |= set(ALL_KINDS)

    def finish(self, eng):
        if (self.filtered_pass or self.two_phase) and self.any_expansion and self.forward_regs and not self.forward_pushed:
            key = ("GATE-8", "forward-target-not-followed")
            if key not in eng.violations:
                eng.violations[key] = {"rule": "GATE-8", "key": key[1], "msg": "forward targets are registered by the trace's passes but no pass queues them: objects behind them are not traced",
                                       "where": eng.where(0), "entry": eng.name, "path": []}
        if getattr(self, "unfollowed_site", None) is not None and self.forward_pushed:
            # the same walk queues a forward target on some paths and not on others, outside the visited-set guard: in the
            # Forward arm the paths can only differ by what the walk over the (hash-ordered) tables has accumulated so far
            key = ("ITER-3", "order-sensitive-queueing")
            if key not in eng.violations:
                try:
                    where = eng.where(self.unfollowed_site)
                except Exception:
                    where = eng.where(0)
                eng.violations[key] = {"rule": "ITER-3", "key": key[1], "msg": "a forward link's target is queued on some paths through the trace's table walk and skipped on others (outside the visited-set guard): which objects are traced then depends on what the walk has accumulated so far, i.e. on table order",
                                       "where": where, "entry": eng.name, "path": []}
        if self.filtered_pass and self.any_expansion:
            missing = sorted(ALL_KINDS - {"2"} - self.reg_kinds)
            for k in missing:
                key = ("GATE-7", "entry-kind-ignored:%s" % KIND_NAMES.get(k, k))
                if key not in eng.violations:
                    eng.violations[key] = {"rule": "GATE-7", "key": key[1], "msg": "the trace walks an expanded node's link table in kind-filtered passes, and no pass registers %s entries in the result map: the orphan test cannot see those objects" % KIND_NAMES.get(k, k),
                                           "where": eng.where(0), "entry": eng.name, "path": []}

    def on_borrow(self, eng, ev, st):
        if ev.box is None:
            return None
        for f in st.flags:
            if f[0] == "popped" and ev.box == mk_field(f[2], "ptr", LINK):
                self.any_expansion = True
                P = f[2]
                self.expansions.add(ev.b)
                eng.obl("GATE-9", "expansion", ev.b)
                tests = [g for g in st.flags if g[0] == "vis_test" and g[2] == P]
                ins = [g for g in st.flags if g[0] == "vis_ins" and g[2] == P]
                ok = False
                cq = [g for g in st.flags if g[0] == "cursorq" and g[1] == f[1]]
                if cq:
                    why = self.cursor_sites.get(cq[0][2])
                    if why is not None:
                        eng.violate("GATE-9", "queue-cursor-not-monotone", "the trace reads its queue through an index, but %s: an element can be read, and its node expanded, twice" % why, ev.b, st)
                    initptr = [g[2] for g in st.flags if g[0] == "wl_initptr" and g[1] == f[1]]
                    seedok = any(g[0] == "seen_seed" and (g[2] in initptr or any(mk_field(g[2], "ptr", LINK) == ip for ip in initptr)) for g in st.flags)
                    if not seedok:
                        eng.violate("GATE-9", "seed-not-marked-seen", "the first queue element is not inserted into the seen-set before the crawl: a link back to it queues and expands it a second time", ev.b, st)
                    return add(st, ("expanded", P, ev.box))
                for tflag in tests:
                    if ("assumed_false", tflag[3]) in st.flags and any(i[1] == tflag[1] for i in ins):
                        ok = True
                if ("vis_guard_ok", P) in st.flags:
                    ok = True
                if not ok:
                    eng.violate("GATE-9", "expansion-without-visited-guard", "the trace expands a popped node without a `contains` test (taken false) and an `insert` on the same visited set keyed by that node", ev.b, st)
                return add(st, ("expanded", P, ev.box))
        return None

    def on_assume_call(self, eng, st, c, truth, b):
        # a visited "set" kept as a map to `()`: `visited.insert(node, ()).is_none()` <=> `HashSet::insert(node)`
        if c[2].startswith("hashbrown::HashMap") and c[2].endswith("::insert") and _unit_valued(c[3]):
            return None
        if c[2].startswith("hashbrown::HashSet") and c[2].endswith("::insert") and len(c[3]) >= 2 and truth:
            # `if !visited.insert(node) { continue }`: insert returned true <=> the node was not visited before
            for f in st.flags:
                if f[0] == "popped" and (c[3][1] == f[2] or c[3][1] == mk_field(f[2], "ptr", LINK)):
                    return add(st, ("vis_guard_ok", f[2]), ("vis_set", mk_deref(c[3][0])))
            # discovery-time marking: `if seen.insert(key(link)) { queue.push(link) }`
            return add(st, ("seen_new", mk_deref(c[3][0]), c[3][1]))
        if c[2].startswith("hashbrown::HashSet") and c[2].endswith("::insert") and len(c[3]) >= 2 and not truth:
            # already seen: the target is (or was) queued
            if any(f[0] == "cursorq" for f in st.flags):
                eo = elem_of(c[3][1])
                if eo is not None:
                    return add(st, ("pushed", eo[0]))
            return None
        if c[2].startswith("hashbrown::HashMap") and c[2].endswith("::contains_key") and len(c[3]) >= 2:
            S = mk_deref(c[3][0])
            for f, E, target, kind in self._match(st, c[3][1]):
                if not truth:
                    return add(st, ("assumed_false", c), ("elem_absent", E, S))
                # already in the map: nothing to add for an adopter; a target still needs its count accumulated
                st = rem(st, lambda g: g == f)
                eng.obl("GATE-7", "registration:%s" % kind_name(kind), b)
                fl = [("elem_reg", E, S, target, kind, None)]
                if target == "same" and kind != "0":
                    fl.append(("map_multikey", S))
                if not adopters_only(kind):
                    fl.append(("elem_acc_pending", E, None))
                eo = elem_of(c[3][1])
                if eo is not None:
                    fl.append(("pushed", eo[0]))
                return add(st, *fl)
        if c[2].endswith("::contains") or c[2].endswith("::contains_key"):
            if not truth:
                return add(st, ("assumed_false", c))
            # a table element that is already pending / visited need not be pushed again
            if len(c[3]) >= 2:
                eo = elem_of(c[3][1])
                if eo is not None:
                    return add(st, ("pushed", eo[0]))
        return None

    def on_site_reexec(self, eng, st, site):
        """Before facts about the previous result of `site` are dropped: per-iteration obligations."""
        for f in st.flags:
            if f[0] == "elem_pending" and _is_next_site(f[1], site):
                if f[1] in self.filtered_elems:
                    continue    # a pass may skip registration (e.g. it only queues); kind coverage is checked over the whole run
                lk = mk_deref(mk_field(f[1], "0", ""))
                kind = known_kind(st, mk_field(lk, "kind", LINK))
                if kind == "2":
                    continue    # a Loopback entry names the expanded node itself and logs a no-op: it need not be registered
                eng.violate("GATE-7", "entry-kind-ignored:%s" % kind_name(kind), "an entry of an expanded node's link table (kind %s) is not registered in the trace's result map, so the verdict cannot see that object" % KIND_NAMES.get(kind, "unknown"), f[2], st)
            if f[0] == "elem_reg" and _is_next_site(f[1], site):
                E, kind = f[1], f[4]
                if targets_only(kind) and "0" in kind:
                    self.forward_regs = True
                if ("pushed", E) in st.flags:
                    self.forward_pushed = True
                if kind == "0" and ("pushed", E) not in st.flags and E not in self.filtered_elems and not any(g[0] == "phase2" for g in st.flags):
                    eng.violate("GATE-8", "forward-target-not-followed", "a forward link's target is registered but never pushed to the worklist, so objects behind it are not traced", site, st)
                    self.unfollowed_site = site
            if f[0] == "elem_acc_pending" and _is_next_site(f[1], site):
                eng.violate("GATE-8", "overwrite-instead-of-accumulate", "a forward/loopback entry is created at 0/default but the entry's count is never added to it", site, st)
        return None

    def on_event(self, eng, ev, st):
        if ev.kind == "store":
            for f in st.flags:
                if f[0] == "elem_acc_pending" and f[2] is not None and ev.place == mk_deref(f[2]):
                    cnt = self._cnt(f[1])
                    v = ev.value
                    old = mk_deref(f[2])
                    if v[0] == "bin" and v[1] in ("Add", "AddUnchecked") and ((v[2] == old and v[3] == cnt) or (v[3] == old and v[2] == cnt)):
                        return rem(st, lambda g: g == f)
                    eng.violate("GATE-8", "overwrite-instead-of-accumulate", "the trace writes a forward/loopback count that is not `old + entry count`", ev.b, st)
                    return rem(st, lambda g: g == f)
        return None


def _is_next_site(E, site):
    return mentions(E, lambda x: x[0] == "call" and x[1] == site and x[2] == "core::iter::Iterator::next")


def _alloc_base(place):
    found = []

    def pred(x):
        if x[0] == "call" and x[2] in ("alloc::boxed::Box::<T>::new_uninit", "alloc::boxed::Box::<T>::new", "alloc::alloc::exchange_malloc"):
            found.append(x)
            return True
        return False
    mentions(place, pred)
    return found[0] if found else None


def _places_rv(rv):
    k = rv["k"]
    if k in ("ref", "addr", "discr", "copyderef"):
        yield rv["pl"]
    for key in ("op", "a", "b"):
        o = rv.get(key)
        if isinstance(o, dict) and o.get("k") in ("copy", "move"):
            yield o["pl"]
    for o in rv.get("ops", []):
        if o.get("k") in ("copy", "move"):
            yield o["pl"]


class Adaptors:
    """Semantics of lazy iterator adaptors for the interpreter: an element that comes out of
    `filter(pred)` satisfies `pred`; strong-state consequences are applied to the element's box."""
    id = "ADAPT"

    def __init__(self, closures):
        self.closures = closures

    def on_call_result(self, eng, st, b, t, res):
        if res[0] == "call" and res[2] == "core::iter::Iterator::next" and res[3]:
            ae = adapted_elem(self.closures, res)
            if ae is not None and ae[2]:
                return ("optpay", res, ae[0])
        return None

    def on_next_some(self, eng, st, nextcall):
        src = iter_source(nextcall[3][0])
        if src is None:
            return None
        adaptors = src[-1]
        if not adaptors:
            return None
        # adaptors are listed outermost first; every `filter` of the chain constrains the element it saw, i.e. the
        # element produced by the adaptors underneath it (expressed over the underlying element U)
        changed = False
        for i, (name, cargs) in enumerate(adaptors):
            if name == "filter_map" and cargs:
                # the element seen by the closure is what the adaptors underneath produce
                below = ("call", nextcall[1], "core::iter::Iterator::next", (_strip_outer(nextcall[3][0], i + 1),))
                ae_b = adapted_elem(self.closures, below)
                if ae_b is not None:
                    r = self._apply_filter(eng, st, cargs[0], ae_b[0], nextcall[1], by_value=True, some_only=True)
                    if r is False:
                        return False
                    if r is not None:
                        st = r
                        changed = True
                continue
            if name != "filter" or not cargs:
                continue
            sub_it = _strip_outer(nextcall[3][0], i)
            fake = ("call", nextcall[1], "core::iter::Iterator::next", (sub_it,))
            ae = adapted_elem(self.closures, fake)
            if ae is None:
                continue
            E = ae[0] if ae[2] else (mk_field(("variant", nextcall, "Some", 1), "0", "") if i == 0 else ae[0])
            r = self._apply_filter(eng, st, cargs[0], E, nextcall[1])
            if r is False:
                return False
            if r is not None:
                st = r
                changed = True
        return st if changed else None

    def _apply_filter(self, eng, st, closure, E, site, by_value=False, some_only=False):
        from interp import classes_for, ALL, fz
        cl = self.closures.run(closure, params={2: E if by_value else ("ref", E)})
        if cl is None or cl["effects"]:
            return None
        if some_only:
            # filter_map: the element is delivered on the paths that return Some(..); nothing is assumed about the payload
            def flag(ret):
                if ret[0] == "agg" and ret[2] == "core::option::Option":
                    return ("const", "1" if ret[3] == "Some" else "0", None)
                return None
            if any(flag(ret) is None for _p, ret, _v in cl["vpaths"]):
                return None
            live_paths = [(pcs, flag(ret), vf) for pcs, ret, vf in cl["vpaths"] if ret[3] == "Some"]
            all_paths = [(pcs, flag(ret)) for pcs, ret in cl["paths"]]
        else:
            live_paths = [(pcs, ret, vf) for pcs, ret, vf in cl["vpaths"] if not (is_const(ret) and ret[1] == "0")]
            all_paths = cl["paths"]
        if len(live_paths) == 1:
            # a single way for the predicate to hold: everything it tested is known for this element
            pcs, ret, vf = live_paths[0]
            for e, v in vf:
                known = st.variant(e)
                if known is not None and known != v:
                    return False
                if known is None:
                    st = st.replace(var=st.var | {(e, v)})
            for c, truth in list(pcs) + [(ret, True)]:
                st = eng.assume(st, c, truth, site)
                if st is None:
                    return False
            return st
        # variant facts shared by every way the predicate can hold
        if live_paths:
            common = set(live_paths[0][2])
            for _p, _r, vf in live_paths[1:]:
                common &= set(vf)
            for e, v in common:
                known = st.variant(e)
                if known is not None and known != v:
                    return False
                if known is None:
                    st = st.replace(var=st.var | {(e, v)})
        else:
            common = set()
        allowed = {}
        touched = set()
        for pcs, ret in all_paths:
            conds = list(pcs) + [(ret, True)]
            per = {}
            feasible = True
            for c, truth in conds:
                if is_const(c):
                    if (c[1] == "1") != truth:
                        feasible = False
                    continue
                if c[0] == "bin" and is_const(c[3]):
                    g = counter_read(c[2])
                    if g is not None and g[2] == "strong":
                        per[g[1]] = per.get(g[1], ALL) & classes_for(c[1], c[3][1], truth)
                        touched.add(g[1])
            if not feasible:
                continue
            for bx in touched:
                allowed.setdefault(bx, set())
            for bx in list(allowed.keys()) + list(per.keys()):
                allowed.setdefault(bx, set())
                allowed[bx] |= per.get(bx, ALL)
        if not allowed:
            return st if common else None
        ss = dict(st.ss)
        for bx, cls in allowed.items():
            cur = st.strong(bx) & frozenset(cls)
            if not cur:
                return False
            ss[bx] = cur
        return st.replace(ss=fz(ss))


def group_of(box):
    """(map expr, next-site) if `box` is named by an element of a loop over a local hash container."""
    eo = elem_of(box)
    if eo is None:
        return None
    elem, it = eo
    src = iter_source(it)
    if src is None or src[0] != "map":
        return None
    site = None

    def pred(x):
        nonlocal site
        if x[0] == "call" and x[2] == "core::iter::Iterator::next" and site is None:
            site = x[1]
            return True
        return False
    mentions(elem, pred)
    return src[1], site


class GroupPhases:
    """Phase discipline of group teardown (TS-2 / TS-3 / TS-5 across the loops over the trace map):
    values of members are destroyed only after the lowering loop is complete and never followed by
    more lowering; implicit weaks of members are released only after every moved-out value was
    destroyed, outside the loop that moves values out; what is moved out is destroyed and released."""
    id = "GROUP"

    def __init__(self):
        self.moveout_maps = set()
        self.release_maps = set()
        self.sites = {}

    def on_variant(self, eng, st, inner, v, b):
        if inner[0] == "call" and is_pop_call(inner[2]) and v == "0" and inner[3]:
            # the container that held the group's contents has been drained
            C = mk_deref(inner[3][0])
            hit = [f for f in st.flags if f[0] == "holds_members" and f[1] == C]
            if hit:
                st = rem(st, lambda g: g in hit)
                return add(st, *[("group_destroyed", f[2]) for f in hit])
            return None
        if inner[0] != "call" or inner[2] != "core::iter::Iterator::next":
            return None
        src = iter_source(inner[3][0])
        if src is None or src[0] != "map":
            return None
        M, N = src[1], inner[1]
        if v == "1":
            return add(st, ("in_loop", M, N))
        if v == "0":
            return rem(st, lambda f: f[0] == "in_loop" and f[1] == M and f[2] == N)
        return None

    def _canonical_key(self, st, box, M):
        """Can the element naming `box` be the only key of its allocation in map M?  Yes if the trace registered
        canonical keys only, or this element's kind is known to be the canonical one (Forward)."""
        if ("map_multikey", M) not in st.flags:
            return True
        b = box
        while b[0] in ("deref", "ref"):
            b = b[1]
        if b[0] == "field" and b[2] == "ptr" and len(b) > 3 and b[3] == LINK:
            kexpr = mk_field(b[1], "kind", LINK)
            if st.variant(kexpr) == "0":
                return True
            excluded = {g[2] for g in st.flags if g[0] == "notvar" and g[1] == kexpr}
            if excluded >= {"1", "2"}:
                return True
        return False

    def on_set(self, eng, ev, st):
        g = group_of(ev.box)
        if g is None:
            return None
        M, N = g
        if ev.field == "strong" and ev.cls == "max" and "U" not in st.strong(ev.box):
            # test-and-set of the uninit mark: whatever follows for this box in this iteration happens once per allocation
            return add(st, ("once", ev.box))
        if ev.field == "weak" and ev.cls == "dec":
            eng.obl("TS-3", "group-release-once", ev.b)
            if not self._canonical_key(st, ev.box, M) and ("once", ev.box) not in st.flags:
                eng.violate("TS-3", "group-member-released-per-key", "the trace's result map can hold several keys for one allocation (a Forward and a Loopback key), and the release loop gives up the implicit weak of a member once per key: its allocation is released twice (use after free)", ev.b, st)
        if ev.field == "strong" and ev.cls in ("dec", "zero", "other", "sub"):
            eng.obl("TS-2", "group-lowering-order", ev.b)
            if ("group_destroyed", M) in st.flags or ("member_destroyed", M) in st.flags:
                eng.violate("TS-2", "lowering-after-destruction", "group teardown lowers a member's strong count after values of the group have already been destroyed (their destructors saw that member alive)", ev.b, st)
            return add(st, ("lowered_in", M, N))
        if ev.field == "weak" and ev.cls == "dec":
            self.release_maps.add(M)
            eng.obl("TS-3", "group-release-order", ev.b)
            for f in st.flags:
                if f[0] == "holds_members" and f[2] == M:
                    eng.violate("TS-3", "group-release-before-destroy", "the implicit weak of a group member is released while values moved out of the group are still waiting to be destroyed (their destructors will drop handles to members whose allocations may already be freed)", ev.b, st)
                    return None
            if ("moved_members", M) in st.flags and ("group_destroyed", M) not in st.flags:
                eng.violate("TS-3", "group-release-before-destroy", "the implicit weak of a group member is released before the values moved out of the group have all been destroyed", ev.b, st)
        return None

    def on_moveout(self, eng, ev, st):
        g = group_of(ev.box)
        if g is None:
            return None
        M, N = g
        self.moveout_maps.add(M)
        eng.obl("TS-1", "group-moveout-once", ev.b)
        if not self._canonical_key(st, ev.box, M) and ("once", ev.box) not in st.flags:
            eng.violate("TS-1", "group-member-moved-per-key", "the trace's result map can hold several keys for one allocation, and contents are moved out of a member once per key without a test-and-set of the uninit mark: the value is destroyed twice", ev.b, st)
        return add(st, ("moved_members", M), ("moved_in", M, N), ("mv_group", ev.res, M))

    def on_vec(self, eng, ev, st):
        if ev.op in ("push", "insert", "extend") and len(ev.args) >= 2:
            C = mk_deref(ev.args[0])
            fl = []
            for f in st.flags:
                if f[0] == "mv_group" and sub(ev.args[-1], f[1]):
                    fl.append(("holds_members", C, f[2]))
            if fl:
                return add(st, *fl)
        return None

    def _destroy(self, eng, ev, st):
        v = ev.get("value")
        if v is None:
            return None
        out = None
        for f in list(st.flags):
            if f[0] == "holds_members" and (v == f[1] or sub(v, f[1])):
                M = f[2]
                eng.obl("TS-2", "group-destroy-order", ev.b)
                self._check_destroy(eng, ev, st, M)
                if v != f[1] and mentions(v, lambda x: x[0] == "call" and (is_pop_call(x[2]) or x[2] == "core::iter::Iterator::next")):
                    # one element taken out of the container: the rest is still waiting
                    st = add(st, ("member_destroyed", M))
                    out = st
                    continue
                st = rem(st, lambda g: g == f)
                inside = any(g[0] == "in_loop" and g[1] == M and ("moved_in", M, g[2]) in st.flags for g in st.flags)
                st = add(st, ("member_destroyed", M) if inside else ("group_destroyed", M))
                out = st
            elif f[0] == "mv_group" and (v == f[1] or sub(v, f[1])) and ev.kind == "user":
                M = f[2]
                eng.obl("TS-2", "group-destroy-order", ev.b)
                self._check_destroy(eng, ev, st, M)
                st = add(st, ("member_destroyed", M))
                out = st
        return out

    def _check_destroy(self, eng, ev, st, M):
        for g in st.flags:
            if g[0] == "in_loop" and g[1] == M and ("lowered_in", M, g[2]) in st.flags:
                eng.violate("TS-2", "destruction-inside-lowering-loop", "values of group members are destroyed inside the loop that lowers the members' strong counts: members visited later are still counted alive while these destructors run", ev.b, st)

    on_user = _destroy
    on_libdrop = _destroy

    def finish(self, eng):
        if getattr(eng.fn, "unexpanded", None):
            return    # the release may sit in code the analysis could not look into: absence of evidence is no evidence
        for M in self.moveout_maps:
            if M not in self.release_maps and eng.name.endswith("::drop"):
                # static existence: contents are moved out of group members but no site releases members of that map
                key = ("TS-5", "group-never-released")
                if key not in eng.violations:
                    eng.violations[key] = {"rule": "TS-5", "key": "group-never-released", "msg": "values are moved out of the members of a collected group, but no code releases those members' implicit weak references (their allocations are never freed)",
                                           "where": eng.where(0), "entry": eng.name, "path": []}


class MapEmptiness:
    """Consistency of repeated loops over the same unmodified local hash container: if one loop found
    no element, no other loop can find one (and vice versa).  Removes paths such as "the verdict loop
    saw an empty map, the teardown loop a non-empty one"."""
    id = "MAPEMP"

    def on_variant(self, eng, st, inner, v, b):
        if inner[0] != "call" or inner[2] != "core::iter::Iterator::next":
            return None
        src = iter_source(inner[3][0])
        if src is None or src[0] != "map" or src[-1]:
            return None
        M, N = src[1], inner[1]
        if v == "1":
            if ("m_empty", M) in st.flags or st.empty(("loc", M)) is True:
                return False
            return add(st, ("m_nonempty", M), ("iterating", N))
        if v == "0":
            if ("iterating", N) in st.flags:
                return rem(st, lambda f: f == ("iterating", N))
            if ("m_nonempty", M) in st.flags or st.empty(("loc", M)) is False:
                return False
            return add(st, ("m_empty", M))
        return None

    def on_tblwrite(self, eng, ev, st):
        if ev.get("box") is None and any(f[0] in ("m_empty", "m_nonempty") for f in st.flags):
            return rem(st, lambda f: f[0] in ("m_empty", "m_nonempty"))
        return None


class IterLocal:
    """ITER-2: inside a loop over a hash-ordered collection (trace map, link table) the library only
    writes counters / link tables / contents of the box named by the current element of an enclosing
    such loop (or local accumulators); anything else makes the outcome depend on the visiting order."""
    id = "ITER-2"

    def on_variant(self, eng, st, inner, v, b):
        if inner[0] != "call" or inner[2] != "core::iter::Iterator::next":
            return None
        src = iter_source(inner[3][0])
        if src is None or src[0] not in ("map", "table"):
            return None
        N = inner[1]
        if v == "1":
            return add(st, ("hloop", N))
        if v == "0":
            return rem(st, lambda f: f == ("hloop", N))
        return None

    def on_event(self, eng, ev, st):
        if ev.kind not in ("set", "tblwrite", "moveout", "free"):
            return None
        loops = [f[1] for f in st.flags if f[0] == "hloop"]
        if not loops:
            return None
        if ev.kind == "set" or ev.kind == "moveout":
            box = ev.box
        elif ev.kind == "tblwrite":
            box = ev.get("box")
            if box is None:
                return None   # local accumulator
        else:
            box = ev.ptr
        eng.obl("ITER-2", "write-in-hash-loop:%s" % ev.kind, ev.b)
        if box is None:
            return None
        ok = any(mentions(box, lambda x, n=n: x[0] == "call" and x[1] == n) for n in loops)
        if not ok and ev.kind == "tblwrite" and ev.get("op") in ("remove", "insert", "remove_entry", "get_mut", "entry") and len(ev.get("args") or ()) >= 2:
            # a keyed write into one fixed table, keyed by the element being visited (`own.remove(link, n)` for each
            # `link` of a snapshot): every key is touched once, whatever the order
            key = ev.args[1]
            ok = any(mentions(key, lambda x, n=n: x[0] == "call" and x[1] == n) for n in loops)
        if not ok:
            eng.violate("ITER-2", "non-element-write-in-hash-ordered-loop:%s" % ev.kind, "inside a loop over a hash-ordered collection the library performs `%s` on %s, which is not the element being visited: the result depends on the visiting order" % (ev.kind, show(box)[:80]), ev.b, st)
        return None
