"""Which rules carry which property (DESIGN.md section 4), and what each rule decides."""

RULE_TEXT = {
    "TS-1": "contents are moved out only of a box observed dead (or under strong == 1 followed by a decrement), at most once per path, never of a live box marked uninit",
    "TS-2": "a user destructor of moved-out contents runs only after the box it came from is in a dead state",
    "TS-3": "the implicit weak of a dead box is released after its moved-out contents were destroyed, and at most once per path",
    "TS-4": "an allocation is freed only on a path that released a weak reference and then observed weak == 0; no access or second free follows",
    "TS-5": "everything moved out of a box is destroyed (or returned) on every normal path; a dying object's value and table are both moved out before the implicit weak is released",
    "TS-6": "a strong handle whose drop destroys the value is dropped only for a box whose value was initialised (a fresh allocation is held as Rc<MaybeUninit<T>> until written)",
    "TS-7": "the strong count is only raised on a box whose state excludes Zero and Uninit (the other branches abort)",
    "TS-8": "count getters return the counters; Weak getters return 0 for destroyed objects",
    "TS-9": "every handle construction is counted (increment on the same box, fresh allocation with counters 1, dangling sentinel, or consumption of another handle); Rc::drop lowers its own count once",
    "GUARD-1": "the Drop impl of a guard type of this crate empties every field whose own drop can run user code before it releases or frees the allocation it guards (field drop glue runs after Drop::drop, also while unwinding)",
    "GIVE-1": "an allocation given up by a handle-consuming API (last strong reference taken, implicit weak released) has had its value handed on or destroyed and its link table dropped",
    "UNW-1": "on every continuation that unwinds out of a user destructor no count is written, no table is written, nothing is moved out, and no release/free happens twice",
    "BRW-1": "no user code (destructor, trait call, handle drop) can run while a link-table guard is live",
    "BRW-2": "a link table is borrowed while another guard is live only if both are shared or the two tables are provably different boxes",
    "BRW-3": "no table guard is leaked or alive at return",
    "GATE-1": "dropping a handle whose object is dead has no effect, and Rc::drop does not write before ruling that out",
    "GATE-2": "Rc::drop touches trace containers, allocates or borrows foreign tables only after seeing its own table non-empty",
    "GATE-3": "Rc::clone only touches the strong count",
    "GATE-4": "a group member's count is lowered only on a path where the orphan test for that trace map succeeded",
    "GATE-5": "a count reaching zero is followed by the teardown, a live linked object by the orphan test, and a positive test by group teardown, all before drop returns",
    "GATE-6": "the orphan test is `no member has strong > its traced count`, with that polarity, and is effect-free",
    "GATE-7": "every entry of an expanded node's table, of every kind, is registered in the trace's result map",
    "GATE-8": "forward/loopback counts are accumulated (old + entry count), adopters get no positive credit, forward targets are pushed to the worklist",
    "GATE-9": "a node is expanded only behind a visited-set test and insert keyed by that node",
    "GATE-10": "fields the visited-set key compares beyond those the expansion uses are the same for every element that can enter the worklist (no object is expanded twice)",
    "PROV-1": "group teardown lowers each member's count by the count the trace attributed to it (the quantity the orphan test compared)",
    "EFF-2": "every write of a counter matches an accounting pattern (handle creation, handle drop, group lowering, sole-owner extraction, death-path release, fresh-allocation init)",
    "EFF-3": "adopt/unadopt only touch link tables",
    "EFF-4": "counter, table and identity fields are not visible outside the crate; no Send/Sync impl; no global mutable state",
    "KILL-1": "a Live->Zero transition outside Rc::drop happens only after the object's table was seen empty (or purged)",
    "SYM-1": "adopt records exactly Forward(other) in this's table and Backward(this) in other's (Loopback for the same handle), +1 each",
    "SYM-2": "unadopt removes exactly the mirror image of what adopt records, by 1",
    "SYM-3": "an object dying with adoption links removes its Forward and Backward records, by the recorded multiplicity, from every peer named in its table before its contents are destroyed; a table installed in another object was seen empty when it was taken",
    "SYM-5": "what adopt / unadopt record for a pair of objects does not depend on which handle objects name the pair (unadopt is the inverse of adopt for the same two objects)",
    "SYM-4": "recording a link adds exactly one from a zero start; lowering is checked and never writes back a zero count",
    "API-1": "documented guard <=> outcome and net effects of try_unwrap, get_mut, make_mut, upgrade, downgrade, raw-pointer round trips, increment/decrement_strong_count, ptr_eq",
    "FWD-1": "comparison / hashing / formatting / borrowing impls forward to the same method on the value, operands in order, result unchanged, no side effects",
    "ITER-1": "loops over hash-ordered collections and the worklist leave only through exhaustion; closures of search adaptors are effect-free",
    "ITER-2": "inside a loop over a hash-ordered collection, counters / link tables / contents are only written on the box named by the element being visited (or local accumulators)",
    "ITER-3": "no order-sensitive adaptor or consumer (take/skip/take_while/skip_while/step_by/nth/last/rev/enumerate/zip/position/min_by/max_by ...) is applied to an iterator over a hash-ordered container; a fold or loop-carried accumulator over one is combined with the elements by a single commutative family of operations; the trace's table walk does not queue a forward target on some paths and skip it on others outside the visited-set guard (what the walk has accumulated so far must not decide what is traced)",
    "ITER-4": "addresses are never ordered (only ==, != and hashing)",
    "ITER-5": "no group-sized loop or linear scan is nested in a group-sized loop",
    "CG-1": "the crate's call graph is acyclic",
    "KEY-1": "Link's PartialEq compares pointer and kind of both operands -- evaluated on all pairs of kinds it says equal exactly for equal kinds --, its Hash reads no field PartialEq ignores, and both are effect-free",
}

PROPS = {
    "C01": ["TS-1", "TS-2", "GATE-1", "GATE-4", "GATE-6", "GATE-7", "GATE-8", "GATE-10", "ITER-1", "SYM-1", "SYM-2", "SYM-3", "SYM-5"],
    "C02": ["TS-1", "TS-3", "TS-4", "GATE-1", "GATE-10", "EFF-2", "UNW-1", "PROV-1", "SYM-3", "TS-6", "TS-9", "GUARD-1", "API-1"],
    "C03": ["GATE-5", "GATE-6", "GATE-8", "GATE-9", "GATE-10", "ITER-1", "EFF-4", "PROV-1", "TS-5", "SYM-1", "SYM-2", "SYM-3"],
    "C04": ["TS-3", "TS-4", "TS-5", "SYM-4", "API-1", "GIVE-1"],
    "C05": ["TS-2", "TS-3", "TS-4", "TS-7", "TS-8", "TS-9", "GATE-5", "EFF-2", "API-1"],
    "C06": ["EFF-2", "EFF-3", "EFF-4", "TS-8", "TS-9", "PROV-1", "GATE-4", "GATE-6", "GATE-7", "GATE-9", "ITER-1", "SYM-1", "SYM-2", "SYM-3", "API-1"],
    "C07": ["FWD-1", "API-1", "TS-6", "TS-7", "TS-8", "TS-9", "GATE-3"],
    "C08": ["SYM-1", "SYM-2", "SYM-3", "SYM-4", "SYM-5", "EFF-4", "KEY-1"],
    "C09": ["ITER-1", "ITER-2", "ITER-3", "ITER-4", "TS-2", "KEY-1"],
    "C10": ["BRW-1", "BRW-2", "BRW-3", "TS-2", "TS-3", "SYM-3"],
    "C11": ["UNW-1", "TS-2", "TS-6", "BRW-1", "GUARD-1", "SYM-3"],
    "C12": ["KILL-1", "EFF-2", "TS-1", "TS-9", "SYM-3"],
    "C14": ["GATE-2", "GATE-3", "SYM-2", "SYM-4", "API-1"],
    "C15": ["CG-1", "GATE-1", "GATE-9", "ITER-5"],
    "C16": ["TS-7", "TS-9", "GATE-1", "EFF-2"],
}

# API-1 keys relevant per property (API-1 covers many functions; C05 only cares about Weak clauses)
API_FILTER = {
    # a handle rebuilt from a raw pointer names the allocation the pointer came from: otherwise the counts it reads,
    # the value it destroys and the block it releases are not an allocation of the library at all (seed c02p)
    "C02": ("not-inverse-of-as_ptr", "not-value-address"),
    # an object whose value is taken by a handle-consuming API gives up its implicit weak (else the allocation leaks)
    "C04": ("implicit-weak-kept",),
    "C05": ("upgrade", "Weak::", "downgrade"),
    # the O(1) handle operations stay counter operations: no allocation, no link table
    "C14": (":allocates", ":borrows-a-link-table"),
    # identity and count clauses: raw-pointer round trips name the same allocation, ptr_eq is pointer equality,
    # increment/decrement_strong_count move the count by exactly one, up/downgrade stay on the same object
    "C06": ("from_raw", "not-inverse", "not-value-address", "not-pointer-equality", "handle-not-forgotten", "increment_strong_count", "decrement_strong_count", "other-object"),
}

NOT_APPLICABLE = {
    "C13": "whether a stale adoption record endangers a live object depends on where the program keeps the un-recorded handle afterwards (the history), not on any construct in the source; every structural fact that bears on it is already claimed under C01/C08 (DESIGN.md section 5)",
}

# Minimum number of distinct obligations (rule instances at concrete sites) per rule on the dev
# configuration, counted on the pinned tree when the rules first ran.  A run that finds fewer has
# lost its anchor (vocabulary renamed, idiom not recognised) and is inconclusive, never "passing".
FLOORS = {}
