"""Path-sensitive abstract interpreter over inlined MIR.

State = (values of dynamic locals, per-box strong-state knowledge, table
emptiness knowledge, pointer (in)equalities, known enum variants, fresh counter
reads, live table guards, rule flags).  States are explored individually
(no join), so every reported violation comes with a concrete CFG path.

The interpreter turns MIR terminators/statements into *events* over symbolic
boxes (see expr.py) and offers them to rule objects.
"""
import sys
from collections import deque
from body import BodyInfo
from expr import (mk_agg, mk_discr, is_pop_call, show, box_part, table_of, mentions_site, mentions, is_const, const, MAX, depth, mk_deref,
                  mk_field, mk_ref)

ALL = frozenset("ZOMU")       # Zero, One, Many(2..MAX-1), Uninit(MAX)
DEAD = frozenset("ZU")
LIVE = frozenset("OM")

GUARD_ADTS = ("core::cell::Ref", "core::cell::RefMut")
HANDLE_ADTS = {"cactusref::rc::Rc": "Rc", "cactusref::rc::Weak": "Weak"}


class Ev:
    __slots__ = ("kind", "b", "si", "a")

    def __init__(self, kind, b, si=None, **a):
        self.kind = kind
        self.b = b
        self.si = si
        self.a = a

    def __getattr__(self, k):
        try:
            return self.a[k]
        except KeyError:
            raise AttributeError(k)

    def get(self, k, d=None):
        return self.a.get(k, d)

    def __repr__(self):
        return "Ev(%s@%s %s)" % (self.kind, self.b, {k: (show(v) if isinstance(v, tuple) else v) for k, v in self.a.items()})


def fz(d):
    return frozenset(d.items())


class St:
    """Immutable abstract state."""
    __slots__ = ("val", "ss", "emp", "rel", "var", "fresh", "guards", "flags", "_h")

    def __init__(self, val=frozenset(), ss=frozenset(), emp=frozenset(), rel=frozenset(), var=frozenset(),
                 fresh=frozenset(), guards=frozenset(), flags=frozenset()):
        self.val = val
        self.ss = ss
        self.emp = emp
        self.rel = rel
        self.var = var
        self.fresh = fresh
        self.guards = guards
        self.flags = flags
        self._h = hash((val, ss, emp, rel, var, fresh, guards, flags))

    def __hash__(self):
        return self._h

    def __eq__(self, o):
        return (self._h == o._h and self.val == o.val and self.ss == o.ss and self.emp == o.emp and self.rel == o.rel
                and self.var == o.var and self.fresh == o.fresh and self.guards == o.guards and self.flags == o.flags)

    def replace(self, **kw):
        d = {k: getattr(self, k) for k in ("val", "ss", "emp", "rel", "var", "fresh", "guards", "flags")}
        d.update(kw)
        return St(**d)

    # convenience accessors
    def ssd(self):
        return dict(self.ss)

    def strong(self, box):
        for k, v in self.ss:
            if k == box:
                return v
        return ALL

    def empty(self, box):
        for k, v in self.emp:
            if k == box:
                return v
        return None

    def variant(self, e):
        for k, v in self.var:
            if k == e:
                return v
        return None

    def distinct(self, a, b):
        if ("ne", a, b) in self.rel or ("ne", b, a) in self.rel:
            return True
        # a box allocated on this path cannot be any box that existed before
        ra, rb = alloc_root(a), alloc_root(b)
        if (ra is not None or rb is not None) and ra != rb:
            return True
        return False

    def has(self, flag):
        return flag in self.flags

    def flags_with(self, prefix):
        return [f for f in self.flags if f[0] == prefix]


def classes_for(op, c, truth):
    """Strong-state classes for which `value op c` can evaluate to `truth`."""
    out = set()
    c = int(c)
    m = int(MAX)
    reps = {"Z": [0], "O": [1], "M": [2, m - 1], "U": [m]}
    for cl, vals in reps.items():
        for v in vals:
            r = {"Eq": v == c, "Ne": v != c, "Lt": v < c, "Le": v <= c, "Gt": v > c, "Ge": v >= c}.get(op)
            if r is None:
                out.add(cl)
                break
            if r == truth:
                out.add(cl)
                break
    return frozenset(out)


SWAP = {"Lt": "Gt", "Gt": "Lt", "Le": "Ge", "Ge": "Le", "Eq": "Eq", "Ne": "Ne"}


class Engine:
    def __init__(self, fn, rules=(), init_flags=(), init_ss=None, param_exprs=None, max_states=400000, name=None, record_pc=False):
        self.record_pc = record_pc
        self.fn = fn
        self.bi = BodyInfo(fn)
        self.live = self.bi.live_in()
        self.rules = list(rules)
        self.violations = {}
        self.notes = []
        self.max_states = max_states
        self.name = name or fn.path
        self.init_flags = frozenset(init_flags)
        self.init_ss = init_ss or {}
        self.param_exprs = param_exprs or {}
        self.stats = {"states": 0, "blocks": set(), "events": 0, "event_sites": {}, "returns": 0, "resumes": 0, "paths_cut": 0}
        self.parent = {}
        self.exit_states = []     # (kind, block, state)
        self.event_index = {}     # (kind, block, si) -> one Ev instance (for evidence)
        self.obligations = set()  # (rule, what, block) evaluated on at least one path
        self.truncated = False
        self.max_seconds = 90
        self.unfollowed = []      # constructs met on an explored path that the analysis does not model: no verdict
        self.drv_at_return = {}   # call site -> variants ("0" None / "1" Some) its last result had in states reaching a return
        self.return_states = 0
        self.two_variant = set()  # expressions of type Option / Result (type facts, collected where a discriminant is read)

    # ------------------------------------------------------------- driver
    def run(self):
        init_val = {}
        for l, e in self.param_exprs.items():
            init_val[l] = e
        st0 = St(val=fz({l: e for l, e in init_val.items() if l in self.bi.dyn}), ss=fz(self.init_ss), flags=self.init_flags)
        # parameters with an override that are not dynamic: patch the static cache
        for l, e in init_val.items():
            if l not in self.bi.dyn:
                self.bi._static[l] = e
        seen = set()
        work = deque()
        key0 = (0, st0)
        seen.add(key0)
        work.append(key0)
        self.parent[key0] = None
        import time as _time
        t_start = _time.time()
        while work:
            # budgets: states, and wall-clock time per entry point (a run that cannot finish gives no verdict -- it never hangs)
            if len(seen) > self.max_states or (len(seen) % 512 == 0 and _time.time() - t_start > self.max_seconds):
                self.truncated = True
                break
            b, st = work.popleft()
            self.stats["blocks"].add(b)
            if self.fn.blocks[b]["term"]["k"] == "return":
                # what is known at function exit about the last result of each loop-driving call (ITER-1)
                for e, v in st.var:
                    if e[0] == "call" and (e[2] == "core::iter::Iterator::next" or is_pop_call(e[2])):
                        self.drv_at_return.setdefault(e[1], set()).add(v)
                self.return_states += 1
            for (nb, nst) in self.step(b, st):
                nst = self.prune(nb, nst)
                nst = self.widen_consts(nb, nst)
                k = (nb, nst)
                if k not in seen:
                    seen.add(k)
                    self.parent[k] = (b, st)
                    work.append(k)
        self.stats["states"] = len(seen)
        for r in self.rules:
            fin = getattr(r, "finish", None)
            if fin:
                fin(self)
        return self

    def widen_consts(self, b, st):
        """A local that arrives at one block with ever new integer constants (an accumulator stepped by a closure,
        a counter threaded through a fold) is abstracted to an unknown count: keeps the state space finite."""
        seen = self.__dict__.setdefault("_const_seen", {})
        out = None
        for l, e in st.val:
            if e[0] == "const" and e[1] is not None and e[1].lstrip("-").isdigit():
                vs = seen.setdefault((b, l), set())
                if len(vs) <= 3:
                    vs.add(e[1])
                if len(vs) > 3:
                    if out is None:
                        out = dict(st.val)
                    out[l] = ("stepped", ("const", min(vs, key=int), None))
        if out is None:
            return st
        return st.replace(val=fz(out))

    def prune(self, b, st):
        live = self.live[b]
        val = frozenset((l, e) for l, e in st.val if l in live)
        if val != st.val:
            return st.replace(val=val)
        return st

    def path_to(self, b, st):
        out = []
        k = (b, st)
        while k is not None and len(out) < 5000:
            out.append(k[0])
            k = self.parent.get(k)
        out.reverse()
        return out

    def where(self, b):
        p = self.fn.prov[b] if hasattr(self.fn, "prov") else (self.fn.path, b, ())
        t = self.fn.blocks[b]["term"]
        return {"fn": p[0], "bb": p[1], "via": list(p[2]), "file": t.get("file"), "line": t.get("line")}

    def obl(self, rule, what, b):
        self.obligations.add((rule, what, b))

    def violate(self, rule, key, msg, b, st, **extra):
        k = (rule, key)
        if k in self.violations:
            return
        at = getattr(self, "_at", None)
        path = self.path_to(at[0], at[1]) if at is not None and at[0] == b else self.path_to(b, st)
        steps = []
        last = None
        for pb in path:
            w = self.where(pb)
            tag = "%s:%s" % (w["fn"].split("::")[-1], w["line"])
            if tag != last:
                steps.append(tag)
                last = tag
        self.violations[k] = {"rule": rule, "key": key, "msg": msg, "where": self.where(b), "entry": self.name,
                              "path": steps[-40:], **extra}
        # the same defect seen on a continuation that unwinds out of user code is also a panic-safety defect
        if rule in ("TS-1", "TS-3", "TS-4") and any(f[0] == "unwinding" for f in st.flags):
            k2 = ("UNW-1", "on-unwind:%s:%s" % (rule, key))
            if k2 not in self.violations:
                self.violations[k2] = {"rule": "UNW-1", "key": k2[1], "msg": "on a continuation that unwinds out of user code: " + msg, "where": self.where(b),
                                       "entry": self.name, "path": steps[-40:], **extra}

    # ---------------------------------------------------------- semantics
    def step(self, b, st):
        """Execute block b in state st; return list of (succ block, state)."""
        blk = self.fn.blocks[b]
        val = dict(st.val)
        cur = st
        self._at = (b, st)
        for si, s in enumerate(blk["stmts"]):
            if s["k"] == "assign":
                d = s["dst"]
                e = self.bi.rvalue(s["rv"], val)
                if s["rv"]["k"] == "discr" and not s["rv"]["pl"]["p"] and e[0] == "discr":
                    lt = self.fn.locals[s["rv"]["pl"]["l"]]["ty"]
                    if lt.get("adt") in ("core::option::Option", "core::result::Result", "core::ops::ControlFlow", "hashbrown::hash_map::Entry",
                                         "hashbrown::hash_map::EntryRef", "hashbrown::hash_set::Entry", "alloc::collections::btree_map::Entry") and lt.get("peel") == 0:
                        self.two_variant.add(e[1])
                e = widen_steps(e)
                if depth(e) > 150:
                    e = ("unk", "wide%d" % d["l"])
                # a local integer that is being stepped through constants (cursor / counter initialised with a literal)
                if not d["p"] and d["l"] in self.bi.dyn and is_const(e) and s["rv"]["k"] == "use" and s["rv"]["op"].get("k") in ("copy", "move"):
                    src = val.get(s["rv"]["op"]["pl"]["l"])
                    if src is not None and src[0] == "bin" and src[1] in ("AddWithOverflow", "SubWithOverflow", "Add", "Sub") and is_const(src[2]) and is_const(src[3]) \
                            and self._self_step(blk, si, d["l"]):
                        e = ("stepped", src[2])
                if s["rv"]["k"] == "use" and s["rv"]["op"].get("k") == "move" and "*" in s["rv"]["op"]["pl"]["p"] and e[0] == "field":
                    bpm = box_part(mk_ref(e))
                    if bpm is not None and bpm[1] in ("value", "links"):
                        # a field moved out of an object's allocation by a plain move (possible through a Box only)
                        cur = cur.replace(val=fz(val))
                        cur = self.emit(Ev("moveout", b, si, box=bpm[0], field=bpm[1], how="move", res=e, line=s.get("line")), cur)
                        val = dict(cur.val)
                if not d["p"]:
                    if d["l"] in self.bi.dyn:
                        # an expression that keeps growing around a loop (`deepest = deepest.max(1 + f(x))`) is cut off
                        val[d["l"]] = e if depth(e) <= 150 else ("unk", "wide%d" % d["l"])
                    # aggregate construction of handles
                    if e[0] == "agg" and e[2] in HANDLE_ADTS and s["rv"]["k"] == "agg":
                        cur = cur.replace(val=fz(val))
                        cur = self.emit(Ev("handle_new", b, si, handle=HANDLE_ADTS[e[2]], ptr=dict(e[5]).get("ptr"), line=s.get("line")), cur)
                        val = dict(cur.val)
                else:
                    pe = self.bi.place(d, val)
                    if d["p"][0] == "*" or any(p == "*" for p in d["p"]):
                        cur = cur.replace(val=fz(val))
                        bp = box_part(pe)
                        if bp is not None and bp[1] in ("strong", "weak"):
                            # a counter overwritten by a plain assignment (`(*b).strong = Cell::new(..)`)
                            cur = self.emit(Ev("set", b, si, box=bp[0], field=bp[1], value=e, cls=classify_init(e), callee="assignment", line=s.get("line")), cur)
                        else:
                            cur = self.emit(Ev("store", b, si, place=pe, value=e, line=s.get("line")), cur)
                        val = dict(cur.val)
                    else:
                        # partial write to a local aggregate: one field of a known aggregate is replaced (an iterator
                        # struct stepping its own state field); anything else forgets the local's value
                        done = False
                        if len(d["p"]) == 1 and isinstance(d["p"][0], dict) and "f" in d["p"][0] and d["l"] in self.bi.dyn:
                            old_v = val.get(d["l"])
                            if old_v is not None and old_v[0] == "agg" and old_v[1] in ("adt", "tuple"):
                                fname = str(d["p"][0].get("n", d["p"][0]["f"]))
                                old_f = dict(old_v[5]).get(fname)
                                # a field stepped from its own previous value (`self.rest = &self.rest[1..]`) would grow
                                # without bound: such a local is forgotten as before
                                if old_f is not None and not (old_f[0] not in ("const", "agg") and mentions(e, lambda x: x == old_f)) and depth(e) < 40:
                                    val[d["l"]] = old_v[:5] + (tuple((n_, e if n_ == fname else x) for n_, x in old_v[5]),)
                                    done = True
                        if not done:
                            val.pop(d["l"], None)
            elif s["k"] == "setdiscr":
                val.pop(s["dst"]["l"], None)
        cur = cur.replace(val=fz(val))
        t = blk["term"]
        k = t["k"]
        if k == "goto":
            return [(t["target"], cur)]
        if k == "return":
            self.stats["returns"] += 1
            cur = self.emit(Ev("return", b, None, value=self.bi.local_value(0, val)), cur)
            self.exit_states.append(("return", b, cur))
            return []
        if k == "resume":
            self.stats["resumes"] += 1
            cur = self.emit(Ev("resume", b, None), cur)
            self.exit_states.append(("resume", b, cur))
            return []
        if k in ("unreachable", "terminate", "other"):
            return []
        if k == "assert":
            c = self.bi.operand(t["cond"], val)
            out = []
            if is_const(c) and (c[1] == "1") != bool(t["expected"]):
                pass  # assertion certainly fails
            else:
                out.append((t["target"], cur))
            if isinstance(t["unwind"], int) and not (is_const(c) and (c[1] == "1") == bool(t["expected"])) and self.overflow_possible(c, cur) and not self.tally_step(b):
                out.append((t["unwind"], cur.replace(flags=cur.flags | {("unwinding", b)})))
            return out
        if k == "switch":
            return self.do_switch(b, t, cur, val)
        if k == "drop":
            return self.do_drop(b, t, cur, val)
        if k == "call":
            return self.do_call(b, t, cur, val)
        return []

    def tally_step(self, b):
        """Is the overflow check ending block `b` that of `n + 1` for a local integer `n` that is only ever assigned constants
        and its own value plus one, and whose address is never taken?  Such a tally counts executed steps and cannot
        wrap in a realisable run (assumption A8)."""
        cache = self.__dict__.setdefault("_tally_cache", {})
        if b in cache:
            return cache[b]
        cache[b] = False
        blk = self.fn.blocks[b]
        t = blk["term"]
        c = t.get("cond") or {}
        if t.get("msg") != "Overflow" or c.get("k") not in ("copy", "move") or len(c["pl"]["p"]) != 1:
            return False
        tmp = c["pl"]["l"]
        add = [s for s in blk["stmts"] if s["k"] == "assign" and s["dst"]["l"] == tmp and not s["dst"]["p"]]
        if len(add) != 1 or add[0]["rv"].get("k") != "bin" or add[0]["rv"].get("op") != "AddWithOverflow":
            return False
        a, c1 = add[0]["rv"]["a"], add[0]["rv"]["b"]
        if a.get("k") not in ("copy", "move") or a["pl"]["p"] or c1.get("k") != "const" or c1.get("int") != "1":
            return False
        n = a["pl"]["l"]
        if (self.fn.locals[n].get("ty") or {}).get("k") != "int":
            return False
        for b2, blk2 in enumerate(self.fn.blocks):
            for si, s in enumerate(blk2["stmts"]):
                if s["k"] != "assign":
                    continue
                rv = s["rv"]
                if rv.get("k") in ("ref", "addr") and rv["pl"]["l"] == n and (rv.get("mut") is not False or rv["pl"]["p"]):
                    return False
                if s["dst"]["l"] == n:
                    if s["dst"]["p"]:
                        return False
                    if rv.get("k") == "use" and rv["op"].get("k") == "const":
                        continue
                    if rv.get("k") == "use" and self._self_step(blk2, si, n):
                        continue
                    return False
            t2 = blk2["term"]
            if t2["k"] == "call" and t2.get("dst") and t2["dst"]["l"] == n:
                return False
        cache[b] = True
        return True

    def overflow_possible(self, c, st):
        """Can the overflow flag `c` of counter arithmetic be set, given the strong-state?"""
        # `x - y` right after a successful `x > y` / `x >= y` test (guarded in-place subtraction of a table count)
        if c[0] == "field" and c[2] in ("1", 1) and c[1][0] == "bin" and c[1][1] == "SubWithOverflow":
            x, y = c[1][2], c[1][3]
            # `x - n.min(x)` cannot go below zero
            if y[0] == "call" and y[2] in ("core::cmp::Ord::min", "core::cmp::min") and len(y[3]) == 2 and x in y[3]:
                return False
            for f in st.flags:
                if f[0] == "cmp" and len(f) >= 5:
                    op, a, b_, truth = f[1], f[2], f[3], f[4]
                    if a == x and b_ == y and ((op in ("Gt", "Ge") and truth) or (op in ("Lt", "Le") and not truth)):
                        return False
                    if a == y and b_ == x and ((op in ("Lt", "Le") and truth) or (op in ("Gt", "Ge") and not truth)):
                        return False
        if c[0] == "field" and c[2] in ("1", 1) and c[1][0] == "bin" and c[1][1] in ("SubWithOverflow", "AddWithOverflow") and is_const(c[1][3], 1):
            g = counter_read(c[1][2])
            if g is not None and g[2] == "strong" and (g[0], g[1], g[2]) in st.fresh:
                ss = st.strong(g[1])
                return ("Z" in ss) if c[1][1].startswith("Sub") else ("U" in ss)
        return True

    def _self_step(self, blk, si, l):
        """Is statement `si` the write-back of `l ± const` computed just before in the same block?"""
        s = blk["stmts"][si]
        op = s["rv"]["op"]
        if op.get("k") not in ("copy", "move"):
            return False
        src = op["pl"]["l"]
        for t in reversed(blk["stmts"][:si]):
            if t["k"] == "assign" and not t["dst"]["p"] and t["dst"]["l"] == src and t["rv"]["k"] == "bin":
                for o in (t["rv"]["a"], t["rv"]["b"]):
                    if o.get("k") in ("copy", "move") and not o["pl"]["p"] and o["pl"]["l"] == l:
                        return True
                return False
        # the arithmetic may sit in the predecessor block (overflow check in between)
        for b2, blk2 in enumerate(self.fn.blocks):
            t2 = blk2["term"]
            if t2["k"] == "assert" and t2.get("target") is not None and self.fn.blocks[t2["target"]] is blk:
                for t in reversed(blk2["stmts"]):
                    if t["k"] == "assign" and not t["dst"]["p"] and t["dst"]["l"] == src and t["rv"]["k"] == "bin":
                        for o in (t["rv"]["a"], t["rv"]["b"]):
                            if o.get("k") in ("copy", "move") and not o["pl"]["p"] and o["pl"]["l"] == l:
                                return True
        return False

    # ----- events ---------------------------------------------------------
    def emit(self, ev, st):
        self.stats["events"] += 1
        key = (ev.kind, ev.b, ev.si)
        if key not in self.event_index:
            self.event_index[key] = ev
        # rules observe first (on the pre-state), then the domain updates
        for r in self.rules:
            h = getattr(r, "on_" + ev.kind, None)
            if h is not None:
                nst = h(self, ev, st)
                if nst is not None:
                    st = nst
            h = getattr(r, "on_event", None)
            if h is not None:
                nst = h(self, ev, st)
                if nst is not None:
                    st = nst
        return self.domain(ev, st)

    def kill_site(self, st, site):
        """A call site is executed again: forget facts about its previous result."""
        def keep(e):
            return not mentions_site(e, site)
        ss = frozenset((k, v) for k, v in st.ss if keep(k))
        emp = frozenset((k, v) for k, v in st.emp if keep(k))
        rel = frozenset(r for r in st.rel if keep(r[1]) and keep(r[2]))
        var = frozenset((k, v) for k, v in st.var if keep(k))
        guards = frozenset(g for g in st.guards if keep(g[0]))
        flags = frozenset(f for f in st.flags if f != ("popne", site) and not any(isinstance(x, tuple) and mentions_site(x, site) for x in f[1:]))
        fresh = frozenset(f for f in st.fresh if f[0] != site)
        if (ss, emp, rel, var, guards, flags, fresh) == (st.ss, st.emp, st.rel, st.var, st.guards, st.flags, st.fresh):
            return st
        return st.replace(ss=ss, emp=emp, rel=rel, var=var, guards=guards, flags=flags, fresh=fresh)

    def domain(self, ev, st):
        k = ev.kind
        if k == "get":
            # two reads of one counter with no write in between yield the same value
            same = frozenset(("sameread", min(s0, ev.b), max(s0, ev.b), ev.box, ev.field) for (s0, b0, f0) in st.fresh if b0 == ev.box and f0 == ev.field and s0 != ev.b)
            return st.replace(fresh=st.fresh | {(ev.b, ev.box, ev.field)}, flags=st.flags | same)
        if k == "set":
            box, field = ev.box, ev.field
            # all reads of this counter (on any box that may alias) are now stale
            fresh = frozenset(f for f in st.fresh if not (f[2] == field and (f[1] == box or not st.distinct(f[1], box))))
            fl = frozenset(f for f in st.flags if not (f[0] == "cur" and f[2] == field and (f[1] == box or not st.distinct(f[1], box))))
            if isinstance(ev.get("value"), tuple) and not is_const(ev.value):
                fl = fl | {("cur", box, field, ev.value)}
            st = st.replace(fresh=fresh, flags=fl)
            if field == "strong":
                ss = {}
                for kb, v in st.ss:
                    if kb == box:
                        continue
                    if st.distinct(kb, box):
                        ss[kb] = v
                    # otherwise: may alias, knowledge lost (dead states are *not* stable under
                    # arbitrary library writes, only under user code)
                old = st.strong(box)
                new = self.strong_after(ev, old)
                if new != ALL:
                    ss[box] = new
                st = st.replace(ss=fz(ss))
            return st
        if k == "tblwrite":
            if ev.box is not None:
                emp = frozenset((kb, v) for kb, v in st.emp if kb[0] == "loc" or (kb != ev.box and st.distinct(kb, ev.box)))
                if ev.get("op") == "clear":
                    emp = emp | {(ev.box, True)}      # `clear()` leaves the table empty
            else:
                # a write to a local container (trace map / visited set): link tables are unaffected
                emp = frozenset((kb, v) for kb, v in st.emp if kb[0] != "loc")
            return st.replace(emp=emp)
        if k == "borrow":
            return st.replace(guards=st.guards | {(ev.guard, ev.box, ev.mut)})
        if k == "release":
            return st.replace(guards=frozenset(g for g in st.guards if g[0] != ev.guard))
        if k in ("user", "handle_drop", "indirect"):
            # arbitrary user code: live counts and tables of any box may change; dead stays dead
            ss = frozenset((kb, v) for kb, v in st.ss if v <= DEAD)
            return st.replace(ss=ss, emp=frozenset((kb, v) for kb, v in st.emp if kb[0] == "loc"), fresh=frozenset())
        if k == "vec" and ev.get("recv") is not None:
            C = mk_deref(ev.recv)
            if ev.op in ("push", "insert", "push_within_capacity"):
                return st.replace(flags=st.flags | {("vecne", C)})
            if ev.op in ("pop", "remove", "swap_remove", "clear", "truncate", "drain", "split_off", "retain", "dedup"):
                fl = set(f for f in st.flags if f != ("vecne", C))
                if ev.op == "pop" and ("vecne", C) in st.flags:
                    fl.add(("popne", ev.b))
                return st.replace(flags=frozenset(fl))
            return st
        if k == "moveout" and ev.field == "links":
            return st.replace(emp=frozenset((kb, v) for kb, v in st.emp if kb != ev.box))
        return st

    def strong_after(self, ev, old):
        cls = ev.cls
        if cls == "zero":
            return frozenset("Z")
        if cls == "max":
            return frozenset("U")
        if cls == "one":
            return frozenset("O")
        if cls == "dec":
            out = set()
            for c in old:
                out |= {"Z": set("U"), "O": set("Z"), "M": set("OM"), "U": set("M")}[c]
            return frozenset(out)
        if cls == "inc":
            out = set()
            for c in old:
                out |= {"Z": set("O"), "O": set("M"), "M": set("M"), "U": set("Z")}[c]
            return frozenset(out)
        if cls == "sub":
            return frozenset("ZOM") if "U" not in old else ALL
        return ALL

    # ----- switch ---------------------------------------------------------
    def do_switch(self, b, t, st, val):
        d = self.bi.operand(t["discr"], val)
        edges = [(v, tb) for v, tb in t["targets"]] + [("otherwise", t["otherwise"])]
        listed = [v for v, _ in t["targets"]]
        if is_const(d):
            for v, tb in t["targets"]:
                if v == d[1]:
                    return [(tb, st)]
            return [(t["otherwise"], st)]
        out = []
        for v, tb in edges:
            nst = self.refine(st, d, v, listed, b)
            if nst is not None:
                out.append((tb, nst))
        return out

    def refine(self, st, d, v, listed, b):
        """State after learning that discriminant expr `d` took switch arm `v`."""
        # boolean conditions
        if d[0] == "un" and d[1] == "Not":
            if v == "otherwise" and listed == ["0"]:
                return self.assume(st, d[2], False, b)
            if v == "0":
                return self.assume(st, d[2], True, b)
            return st
        if d[0] == "discr" and d[1][0] == "trybranch":
            # `x?` on an Option: Continue (0) <=> Some (1), Break (1) <=> None (0)
            x = d[1][1]
            if v == "otherwise":
                v = "1" if listed == ["0"] else ("0" if listed == ["1"] else None)
                if v is None:
                    return None if set(listed) >= {"0", "1"} else st
            dx = mk_discr(x)
            if is_const(dx):
                return st if dx[1] == ("1" if v == "0" else "0") else None
            return self.refine(st, dx, "1" if v == "0" else "0", ["0", "1"], b)
        if d[0] == "discr":
            inner = d[1]
            known = st.variant(inner)
            # Option-valued results of next()/pop(): `otherwise` of a one-armed switch is the other variant
            if v == "otherwise" and (inner in self.two_variant or (inner[0] == "call" and (inner[2] == "core::iter::Iterator::next" or is_pop_call(inner[2])))):
                if listed == ["1"]:
                    v = "0"
                elif listed == ["0"]:
                    v = "1"
                elif set(listed) >= {"0", "1"}:
                    return None  # both variants of the Option are handled explicitly
            if v == "otherwise":
                if known is not None and known in listed:
                    return None
                if known is None and inner[0] == "field" and inner[2] == "kind":
                    return st.replace(flags=st.flags | {("notvar", inner, lv) for lv in listed})
                return st
            if known is not None:
                return st if known == v else None
            if ("notvar", inner, v) in st.flags:
                return None
            nst = st.replace(var=st.var | {(inner, v)})
            for r in self.rules:
                h = getattr(r, "on_variant", None)
                if h:
                    x = h(self, nst, inner, v, b)
                    if x is False:
                        return None
                    if x is not None:
                        nst = x
            return self.variant_feasible(nst, inner, v, b)
        # bool-typed discriminant
        # `weak_count` is `weak - 1`: an integer switch on it is a switch on the counter
        shifted = d[0] == "bin" and d[1] in ("Sub", "SubUnchecked") and is_const(d[3]) and counter_read(d[2]) is not None
        # an integer switch on what an iterator consumer computed (`match it.max() { Some(0) => .. }`, `match it.sum() { 0 => .. }`)
        agg = d[1][1] if (d[0] == "field" and d[1][0] == "variant") else (d[1] if d[0] == "field" and d[1][0] == "call" else d)
        if agg[0] == "call" and agg[2] in ("core::iter::Iterator::max", "core::iter::Iterator::min", "core::iter::Iterator::sum", "core::iter::Iterator::fold", "core::iter::Iterator::count"):
            if v == "otherwise":
                for lv in listed:
                    st = self.assume(st, ("bin", "Eq", d, const(lv)), False, b)
                    if st is None:
                        return None
                return st
            return self.assume(st, ("bin", "Eq", d, const(v)), True, b)
        if listed == ["0"] and counter_read(d) is None and not shifted:
            return self.assume(st, d, v != "0", b)
        # integer switch on a counter value: `match strong { 0 | MAX => .., _ => .. }`
        g = counter_read(d)
        if g is not None or shifted:
            if v == "otherwise":
                for lv in listed:
                    st = self.assume(st, ("bin", "Eq", d, const(lv)), False, b)
                    if st is None:
                        return None
                return st
            return self.assume(st, ("bin", "Eq", d, const(v)), True, b)
        if listed == ["0"]:
            return self.assume(st, d, v != "0", b)
        return st

    def variant_feasible(self, st, inner, v, b=None):
        """Iterator::next on an iterator over a table known to be empty cannot yield Some;
        Vec::pop on a vector that was pushed to since the last removal cannot yield None."""
        # count.checked_add(1) is None exactly at usize::MAX, count.checked_sub(1) exactly at 0
        if inner[0] == "call" and inner[2] in ("core::num::<impl usize>::checked_add", "core::num::<impl usize>::checked_sub") and len(inner[3]) == 2 \
                and is_const(inner[3][1], 1) and counter_read(inner[3][0]) is not None and v in ("0", "1"):
            edge = const(MAX) if inner[2].endswith("checked_add") else const(0)
            st = self.assume(st, ("bin", "Eq", inner[3][0], edge), v == "0", b)
            if st is None:
                return None
        if inner[0] == "call" and (inner[2].startswith("alloc::vec::Vec::<T") or inner[2].startswith("alloc::collections::VecDeque::<T")) and is_pop_call(inner[2]) and v == "0" and inner[3]:
            if ("popne", inner[1]) in st.flags:
                return None
        if inner[0] == "call" and inner[2] == "core::iter::Iterator::next" and v == "1":
            root = iter_table(inner[3][0])
            if root is not None and st.empty(root) is True:
                return None
            for r in self.rules:
                h = getattr(r, "on_next_some", None)
                if h:
                    x = h(self, st, inner)
                    if x is False:
                        return None
                    if x is not None:
                        st = x
        return st

    def assume(self, st, c, truth, b):
        r = self.assume_(st, c, truth, b)
        if r is not None and self.record_pc and not is_const(c):
            r = r.replace(flags=r.flags | {("pc", c, truth)})
        return r

    def assume_(self, st, c, truth, b):
        """Refine `st` with boolean expression `c` == truth; None if infeasible."""
        if is_const(c):
            return st if (c[1] == "1") == truth else None
        if c[0] == "un" and c[1] == "Not":
            return self.assume(st, c[2], not truth, b)
        if c[0] == "bin" and c[1] in SWAP:
            op, x, y = c[1], c[2], c[3]
            if is_const(x) and not is_const(y):
                op, x, y = SWAP[op], y, x
            if is_const(y):
                # a test of the very expression that was last stored into a counter is a test of the counter
                for f in st.flags:
                    yk = y
                    hit = f[0] == "cur" and f[3] == x
                    gx_, gf_ = counter_read(x), (counter_read(f[3][2]) if f[0] == "cur" and f[3][0] == "bin" else None)
                    same_read = gx_ is not None and gf_ is not None and gx_[1:] == gf_[1:] and (gx_[0] == gf_[0] or ("sameread", min(gx_[0], gf_[0]), max(gx_[0], gf_[0]), gx_[1], gx_[2]) in st.flags)
                    if f[0] == "cur" and not hit and f[3][0] == "bin" and same_read and is_const(f[3][3]):
                        # the counter now holds `x - k` / `x + k` for the read x being tested (`let prior = c.replace(c.get() - 1);
                        # prior == 1`): a test of the old value is a test of the new one, shifted
                        k = int(f[3][3][1])
                        if f[3][1] in ("Sub", "SubUnchecked") and int(y[1]) >= k:
                            hit, yk = True, const(int(y[1]) - k)
                        elif f[3][1] in ("Add", "AddUnchecked"):
                            hit, yk = True, const(int(y[1]) + k)
                    if hit:
                        y = yk
                        box, field = f[1], f[2]
                        if field == "strong":
                            new = st.strong(box) & classes_for(op, y[1], truth)
                            if not new:
                                return None
                            ss = dict(st.ss)
                            ss[box] = new
                            st = st.replace(ss=fz(ss))
                        for r in self.rules:
                            h = getattr(r, "on_counter_test", None)
                            if h:
                                x2 = h(self, st, box, field, op, y[1], truth, b)
                                if x2 is not None:
                                    st = x2
                        return st
                # the payload of `count.checked_add(k)` / `checked_sub(k)` is count + k / count - k
                if x[0] == "field" and x[1][0] == "variant" and x[1][2] == "Some" and x[1][1][0] == "call" and x[1][1][2].startswith("core::num::<impl usize>::checked_") \
                        and len(x[1][1][3]) == 2 and is_const(x[1][1][3][1]) and counter_read(x[1][1][3][0]) is not None:
                    cc = x[1][1]
                    x = ("bin", "Add" if cc[2].endswith("checked_add") else "Sub", cc[3][0], cc[3][1])
                if x[0] == "bin" and x[1] in ("Add", "AddUnchecked") and is_const(x[3]) and counter_read(x[2]) is not None and int(y[1]) >= int(x[3][1]):
                    # (count + k) op c  <=>  count op (c - k)   (no wrap: the addition was checked on every such path)
                    y = const(int(y[1]) - int(x[3][1]))
                    x = x[2]
                if x[0] == "bin" and x[1] in ("Sub", "SubUnchecked") and is_const(x[3]) and counter_read(x[2]) is not None:
                    # (count - k) op c  <=>  count op (c + k)   (no wrap: count >= k on every such read in practice)
                    y = const(int(y[1]) + int(x[3][1]))
                    x = x[2]
                g = counter_read(x)
                if g is not None:
                    site, box, field = g
                    # the outcome of a test on one particular read is a fact about that value: a snapshot kept in a
                    # local (`let unique = strong_count(this) == 1; ...; if unique`) cannot flip later, whatever
                    # happened to the counter in between (the flag dies when the read's site is executed again)
                    if ("cond", x, op, y[1], not truth) in st.flags:
                        return None
                    st = st.replace(flags=st.flags | {("cond", x, op, y[1], truth)})
                    if (site, box, field) in st.fresh:
                        if field == "strong":
                            allowed = classes_for(op, y[1], truth)
                            cur = st.strong(box)
                            new = cur & allowed
                            if not new:
                                return None
                            ss = dict(st.ss)
                            ss[box] = new
                            st = st.replace(ss=fz(ss))
                        for r in self.rules:
                            h = getattr(r, "on_counter_test", None)
                            if h:
                                x2 = h(self, st, box, field, op, y[1], truth, b)
                                if x2 is not None:
                                    st = x2
                        return st
                if x[0] == "call" and x[2].startswith("hashbrown::") and x[2].endswith("::len") and x[3]:
                    tb = table_of(x[3][0])
                    is_loc = tb is None
                    if is_loc:
                        tb = ("loc", mk_deref(x[3][0]))     # a map that is a local of the function (the trace's result)
                    cls = classes_for(op, y[1], truth)
                    val_empty = None
                    if cls == frozenset("Z"):
                        val_empty = True
                    elif "Z" not in cls:
                        val_empty = False
                    if val_empty is not None:
                        cur = st.empty(tb)
                        if cur is not None and cur != val_empty:
                            return None
                        emp = dict(st.emp)
                        emp[tb] = val_empty
                        st = st.replace(emp=fz(emp))
                        for r in self.rules:
                            h = getattr(r, "on_empty_known", None)
                            if h:
                                x2 = h(self, st, tb, val_empty, b)
                                if x2 is not None:
                                    st = x2
                        if is_loc:
                            # same meaning as `map.is_empty()` evaluating to val_empty
                            for r in self.rules:
                                h = getattr(r, "on_assume_call", None)
                                if h:
                                    x2 = h(self, st, ("call", x[1], x[2][: -len("len")] + "is_empty", x[3]), val_empty, b)
                                    if x2 is False:
                                        return None
                                    if x2 is not None:
                                        st = x2
                    return st
            # comparison of an enum discriminant with a constant (derived PartialEq on field-less enums)
            if op in ("Eq", "Ne") and is_const(y) and x[0] == "discr":
                inner = x[1]
                same = (op == "Eq") == truth
                known = st.variant(inner)
                if same:
                    if known is not None:
                        return st if known == y[1] else None
                    nst = st.replace(var=st.var | {(inner, y[1])})
                    for r in self.rules:
                        h = getattr(r, "on_variant", None)
                        if h:
                            x2 = h(self, nst, inner, y[1], b)
                            if x2 is False:
                                return None
                            if x2 is not None:
                                nst = x2
                    return nst
                if known is not None and known == y[1]:
                    return None
                return st.replace(flags=st.flags | {("notvar", inner, y[1])})
            # dangling-sentinel test on a pointer address
            if op in ("Eq", "Ne") and is_const(y, MAX) and x[0] == "cast" and x[1] == "PtrToInt":
                is_s = (op == "Eq") == truth
                for r in self.rules:
                    h = getattr(r, "on_ptr_sentinel", None)
                    if h:
                        x2 = h(self, st, x[2], is_s, b)
                        if x2 is not None:
                            st = x2
                return st
            for r in self.rules:
                h = getattr(r, "on_assume_cmp", None)
                if h:
                    x2 = h(self, st, op, x, y, truth, b)
                    if x2 is False:
                        return None
                    if x2 is not None:
                        st = x2
            # comparisons involving a count read out of a hash table: remembered for the bookkeeping rules
            if mentions(c, lambda e: e[0] == "entryval" or (e[0] == "call" and e[2].startswith("hashbrown::") and e[2].rsplit("::", 1)[1] in ("get", "get_mut"))):
                st = st.replace(flags=st.flags | {("cmp", op, x, y, truth)})
                return st
            # pointer comparisons
            if op in ("Eq", "Ne"):
                same = (op == "Eq") == truth
                return self.ptr_rel(st, x, y, same)
            return st
        if c[0] == "call":
            # the result of one call execution is one value: later tests of it must agree with earlier ones
            if c[2].startswith("hashbrown::") or c[2] in ("core::ptr::eq", "core::iter::Iterator::any", "core::iter::Iterator::all"):
                if ("cv", c, not truth) in st.flags:
                    return None
                if ("cv", c, truth) not in st.flags:
                    st = st.replace(flags=st.flags | {("cv", c, truth)})
            d = c[2]
            if d == "core::ptr::eq" and len(c[3]) == 2:
                return self.ptr_rel(st, c[3][0], c[3][1], truth)
            if d.endswith("::is_empty") and c[3]:
                tb = table_of(c[3][0])
                if tb is None and d.startswith("hashbrown::"):
                    tb = ("loc", mk_deref(c[3][0]))
                if tb is not None:
                    cur = st.empty(tb)
                    if cur is not None and cur != truth:
                        return None
                    emp = dict(st.emp)
                    emp[tb] = truth
                    st = st.replace(emp=fz(emp))
                    for r in self.rules:
                        h = getattr(r, "on_empty_known", None)
                        if h:
                            x2 = h(self, st, tb, truth, b)
                            if x2 is not None:
                                st = x2
            for r in self.rules:
                h = getattr(r, "on_assume_call", None)
                if h:
                    x2 = h(self, st, c, truth, b)
                    if x2 is False:
                        return None
                    if x2 is not None:
                        st = x2
            return st
        return st

    def ptr_rel(self, st, x, y, same):
        if x == y:
            return st if same else None
        if same:
            if st.distinct(x, y):
                return None
            return st.replace(rel=st.rel | {("eq", x, y)})
        if ("eq", x, y) in st.rel or ("eq", y, x) in st.rel:
            return None
        return st.replace(rel=st.rel | {("ne", x, y)})

    # ----- drop -----------------------------------------------------------
    def do_drop(self, b, t, st, val):
        pl = t["pl"]
        ty = t["ty"]
        if not pl["p"]:
            lty = self.fn.locals[pl["l"]]["ty"]
            if ty.get("k") == "param" and lty.get("k") not in ("param", None, "other"):
                ty = lty    # the inliner retyped this parameter with the type of the actual argument
        e = self.bi.place(pl, val)
        evs = self.drop_events(b, ty, e, t)
        pre = st
        for ev in evs:
            st = self.emit(ev, st)
        out = [(t["target"], st)]
        if isinstance(t["unwind"], int) and any(ev.kind in ("user", "handle_drop") for ev in evs):
            self.obl("UNW-1", "unwind-edge-of-destructor", b)
            # the destructor ran (the value is gone) and panicked
            ust = st.replace(flags=st.flags | {("unwinding", b)})
            out.append((t["unwind"], ust))
        return out

    def drop_events(self, b, ty, e, t):
        adt = ty.get("adt") if ty.get("peel", 0) == 0 else None
        line = t.get("line")
        # a Box that owns an object's allocation (`Box::from_raw(rcbox)`) goes: the allocation is freed (the fields of an
        # RcBox have no drop glue of their own: counters and MaybeUninit storage)
        if adt == "alloc::boxed::Box" and ((ty.get("args") or [{}])[0]).get("adt") == "cactusref::rc::RcBox":
            return [Ev("free", b, None, ptr=e, layout=("call", b, "core::alloc::Layout::new", ()), line=line, callee="alloc::boxed::Box::drop")]
        # the contents of a box destroyed where they are (`*slot = new_value` drops the old value in place;
        # `ptr::drop_in_place(&mut (*b).value)`): a move-out and the destruction of what was moved, in one
        bp = box_part(mk_ref(e)) if e[0] != "call" else None
        if bp is not None and bp[1] in ("value", "links") and (ty.get("dp", 0) or ty.get("nd") or (ty.get("hp") and ty.get("nd"))):
            v = ("call", b, "in-place-drop", (mk_ref(e),))
            return [Ev("moveout", b, None, box=bp[0], field=bp[1], how="in-place", res=v, line=line)] + self.drop_events(b, ty, v, t)
        if adt in GUARD_ADTS:
            return [Ev("release", b, None, guard=e, line=line)]
        if holds_guard(ty):
            return [Ev("release", b, None, guard=e, line=line), Ev("libdrop", b, None, ty=ty["s"], value=e, line=line)]
        if adt in HANDLE_ADTS:
            return [Ev("handle_drop", b, None, handle=HANDLE_ADTS[adt], box=mk_field(e, "ptr", adt), value=e, ty=ty["s"], line=line)]
        dp = ty.get("dp", 1 if (ty.get("hp") and ty.get("nd")) else 0)
        if dp:
            return [Ev("user", b, None, what="drop", ty=ty["s"], value=e, dp=dp, line=line)]
        if ty.get("nd"):
            return [Ev("libdrop", b, None, ty=ty["s"], value=e, line=line)]
        return []

    # ----- call -----------------------------------------------------------
    def do_call(self, b, t, st, val):
        callee = t["callee"]
        r0 = self.known_slice_next(b, t, st, val)
        if r0 is not None:
            return r0
        args = [self.bi.operand(a, val) for a in t["args"]]
        for r in self.rules:
            h = getattr(r, "on_site_reexec", None)
            if h:
                x = h(self, st, b)
                if x is not None:
                    st = x
        st = self.kill_site(st, b)
        res = self.bi.call_value(b, t, val)
        for r in self.rules:
            h = getattr(r, "on_call_result", None)
            if h:
                x = h(self, st, b, t, res)
                if x is not None:
                    res = x
        evs, diverges = self.call_events(b, t, callee, args, res, st)
        # a value that *contains* table guards (a Vec / Option / tuple of `Ref<Links>` built by library code,
        # e.g. `iter().map(|l| l.links().borrow()).collect()`): the borrows inside it were taken out of sight
        dty = self.fn.locals[t["dst"]["l"]]["ty"] if not t["dst"]["p"] else {}
        if holds_guard(dty) and not any(ev.kind == "borrow" for ev in evs) and not mentions_guard_arg(args, st):
            evs.append(Ev("borrow", b, None, callee=(callee or {}).get("def"), box=None, cell=None, mut="RefMut<" in dty.get("s", ""), guard=res, method="container", line=t.get("line")))
        pre = st
        for ev in evs:
            st = self.emit(ev, st)
        out = []
        d = t["dst"]
        if t["target"] is not None and not diverges:
            nst = st
            if not d["p"]:
                if d["l"] in self.bi.dyn:
                    v = dict(nst.val)
                    v[d["l"]] = res if depth(res) <= 150 else ("unk", "wide%d" % d["l"])
                    nst = nst.replace(val=fz(v))
            else:
                pe = self.bi.place(d, dict(nst.val))
                nst = self.emit(Ev("store", b, None, place=pe, value=res, line=t.get("line")), nst)
            out.append((t["target"], nst))
        if isinstance(t["unwind"], int):
            # unwinding is modelled for user code (the fault set of C11), explicit panics and unknown
            # foreign calls; allocation failure / capacity overflow inside alloc and hashbrown, and
            # RefCell borrow panics (excluded by BRW-2), are not part of any property's fault model
            # a failing `debug_assert!` of the crate is outside every property's fault model too: it states an
            # invariant, is compiled out of release builds, and cannot be relied on for behaviour
            can_unwind = any(ev.kind in ("user", "handle_drop", "indirect", "extcall") or
                             (ev.kind == "panic" and not str(ev.get("macro") or "").startswith("debug_assert")) for ev in evs)
            if can_unwind:
                if any(ev.kind in ("user", "handle_drop", "indirect") for ev in evs):
                    self.obl("UNW-1", "unwind-edge-of-user-call", b)
                ust = st.replace(flags=st.flags | {("unwinding", b)})
                out.append((t["unwind"], ust))
        return out

    def known_slice_next(self, b, t, st, val):
        """`next` on a slice iterator that walks a known constant array (`for &k in &KINDS`): hand out the first element
        and leave the rest behind, as for a literal array iterated by value."""
        l = t.get("recv_local")
        if l is None or t.get("target") is None or t["dst"]["p"]:
            return None
        cur = self.bi.local_value(l, val)
        n = 0
        while cur[0] == "call" and len(cur[3]) == 1 and cur[2] in ("core::iter::IntoIterator::into_iter", "core::slice::<impl [T]>::iter") and n < 4:
            cur = cur[3][0]
            n += 1
        if not (cur[0] == "ref" and cur[1][0] == "agg" and cur[1][1] == "array"):
            return None
        a = cur[1]
        if a[5]:
            res = mk_agg("adt", "core::option::Option", "Some", 1, [("0", mk_ref(a[5][0][1]))])
            rest = mk_ref(mk_agg("array", a[2], a[3], a[4], [(str(i), e) for i, (_n, e) in enumerate(a[5][1:])]))
        else:
            res = mk_agg("adt", "core::option::Option", "None", 0, [])
            rest = cur
        v = dict(st.val)
        v[l] = rest
        if t["dst"]["l"] in self.bi.dyn:
            v[t["dst"]["l"]] = res
        else:
            return None
        return [(t["target"], st.replace(val=fz(v)))]

    def call_events(self, b, t, callee, args, res, st):
        """Map a call terminator to abstract events. Returns (events, diverges)."""
        line = t.get("line")
        mac = t.get("macro")
        if callee is None:
            return [Ev("indirect", b, None, fnop=self.bi.operand(t["fnop"], dict(st.val)), args=args, line=line)], False
        d = callee["def"]
        crate = callee.get("crate")
        evs = []
        A = lambda kind, **kw: evs.append(Ev(kind, b, None, line=line, callee=d, **kw))
        if d == "core::intrinsics::abort":
            A("abort")
            return evs, True
        if crate == "log" or (mac in ("trace", "debug", "info", "warn", "error") and crate in ("core", "log")):
            A("log", args=args)
            return evs, False
        if d.startswith("core::panicking::"):
            A("panic", macro=mac)
            return evs, t["target"] is None
        # ---- counters
        if d.startswith("core::cell::Cell::<T>::") and args:
            bp = box_part(args[0])
            m = d.rsplit("::", 1)[1]
            if bp is not None and bp[1] in ("strong", "weak"):
                if m == "get":
                    A("get", box=bp[0], field=bp[1])
                elif m == "set":
                    A("set", box=bp[0], field=bp[1], value=args[1], cls=classify_set(args[1], bp, st))
                elif m == "as_ptr":
                    # reads and writes through a raw pointer to a reference counter are not followed: no verdict
                    self.unfollowed.append("a raw pointer to the %s count of an object is taken with `Cell::as_ptr` (%s:%s); reads and writes through it are outside what the analysis can follow" % (bp[1], t.get("file"), t.get("line")))
                else:
                    A("set", box=bp[0], field=bp[1], value=("unk", m), cls="other:" + m)
                return evs, False
            if m in ("get", "new", "as_ptr", "get_mut", "into_inner", "from_mut"):
                if m != "new" and m != "get":
                    A("cell_escape", method=m, arg=args[0])
                return evs, False
            A("cell_unknown", method=m, arg=args[0])
            return evs, False
        # ---- table guards
        if d.startswith("core::cell::RefCell::<T>::") and args:
            m = d.rsplit("::", 1)[1]
            bp = box_part(args[0])
            if m in ("borrow", "borrow_mut", "try_borrow", "try_borrow_mut", "try_borrow_unguarded", "as_ptr", "get_mut"):
                A("borrow", box=bp[0] if bp else None, cell=args[0], mut=("mut" in m or m == "as_ptr"), guard=res, method=m)
                return evs, False
            if m == "new":
                return evs, False
            A("refcell_other", method=m, arg=args[0], box=bp[0] if bp else None)
            return evs, False
        # ---- hash tables (link tables and local maps/sets)
        if crate == "hashbrown":
            m = d.rsplit("::", 1)[1]
            if m in ("new", "with_hasher", "with_capacity", "with_capacity_and_hasher", "new_in", "with_hasher_in") and (d.startswith("hashbrown::HashMap::") or d.startswith("hashbrown::HashSet::")):
                # constructors: an empty container (its arguments are a hasher / a capacity, not a container)
                if "capacity" in m:
                    A("alloc", what=d)
                return evs, False
            recv = args[0] if args else None
            tb = table_of(recv) if recv is not None else None
            A("tbl", op=m, table=tb, recv=recv, args=args, res=res, container=d.split("::<")[0])
            if m in TABLE_WRITERS or m not in TABLE_READERS:
                A("tblwrite", box=tb, op=m, recv=recv, args=args)
            if m in TABLE_ALLOC:
                A("alloc", what=d)
            return evs, False
        # ---- memory
        if d in ("core::mem::replace", "core::mem::take", "core::mem::swap", "core::ptr::read", "core::ptr::replace",
                 "core::ptr::read_unaligned", "core::ptr::read_volatile", "core::mem::MaybeUninit::<T>::assume_init_read",
                 "core::ptr::const_ptr::<impl *const T>::read", "core::ptr::mut_ptr::<impl *mut T>::read", "core::ptr::mut_ptr::<impl *mut T>::replace",
                 "core::mem::ManuallyDrop::<T>::take", "core::mem::ManuallyDrop::<T>::into_inner"):
            bp = box_part(args[0]) if args else None
            if bp is None and d == "core::mem::swap" and len(args) == 2 and box_part(args[1]) is not None and box_part(args[1])[1] in ("value", "links"):
                # `mem::swap(&mut local, &mut (*b).links)`: the field's contents now live in the local (what the local held -- an
                # uninit placeholder in the idiom -- is in the field)
                bp2 = box_part(args[1])
                A("moveout", box=bp2[0], field=bp2[1], how="swap", res=mk_deref(args[0]), put=mk_deref(args[0]))
                return evs, False
            if bp is not None and d == "core::mem::swap" and len(args) == 2 and box_part(args[1]) is None and bp[1] in ("value", "links"):
                # `mem::swap(&mut (*b).links, &mut local)`: the same with the arguments the other way round
                A("moveout", box=bp[0], field=bp[1], how="swap", res=mk_deref(args[1]), put=mk_deref(args[1]))
                return evs, False
            if bp is not None:
                if bp[1] in ("value", "links"):
                    A("moveout", box=bp[0], field=bp[1], how=d.rsplit("::", 1)[1], res=res, put=args[1] if d.endswith("::replace") and len(args) > 1 else None)
                else:
                    A("set", box=bp[0], field=bp[1], value=("unk", d), cls="other:" + d)
            elif d == "core::mem::replace" and len(args) == 2 and args[0][0] == "param":
                # `mem::replace(this, new)` on a handle slot of the caller: the slot holds the new value from here on (what
                # is handed back is the old one)
                A("store", place=mk_deref(args[0]), value=args[1], how="replace")
            elif args and d.startswith("core::mem::"):
                # the *contents* of a link table taken / replaced through a guard: every record of that object is discarded
                for a in (args[:2] if d.endswith("swap") else args[:1]):
                    tb = table_of(a)
                    if tb is not None:
                        A("tbl", op="replace", table=tb, recv=a, args=args, res=res, container="core::mem")
                        A("tblwrite", box=tb, op="replace", recv=a, args=args)
                        A("discard", box=tb, how=d.rsplit("::", 1)[1], res=res)
            return evs, False
        if d in ("core::ptr::copy_nonoverlapping", "core::ptr::copy", "core::ptr::mut_ptr::<impl *mut T>::copy_from_nonoverlapping",
                 "core::ptr::mut_ptr::<impl *mut T>::copy_from", "core::ptr::const_ptr::<impl *const T>::copy_to_nonoverlapping",
                 "core::ptr::const_ptr::<impl *const T>::copy_to", "core::ptr::mut_ptr::<impl *mut T>::copy_to_nonoverlapping"):
            # find source / destination among pointer args
            if "copy_from" in d:
                dst, src = args[0], args[1]
            elif "copy_to" in d:
                src, dst = args[0], args[1]
            else:
                src, dst = args[0], args[1]
            sp = box_part(src)
            dp_ = box_part(dst)
            if sp is not None and sp[1] in ("value", "links"):
                A("moveout", box=sp[0], field=sp[1], how="copy", res=res, dst=dst)
            if dp_ is not None:
                A("fill", box=dp_[0], field=dp_[1], src=src)
            return evs, False
        if d in ("core::ptr::write", "core::ptr::mut_ptr::<impl *mut T>::write") and args:
            bp = box_part(args[0])
            if bp is not None:
                if bp[1] in ("strong", "weak"):
                    A("set", box=bp[0], field=bp[1], value=args[1], cls=classify_init(args[1]))
                else:
                    A("fill", box=bp[0], field=bp[1], src=args[1])
            else:
                A("store", place=mk_deref(args[0]), value=args[1])
            return evs, False
        if d in ("core::ptr::drop_in_place", "core::mem::drop", "core::mem::ManuallyDrop::<T>::drop", "core::mem::MaybeUninit::<T>::assume_init_drop",
                 "core::ptr::mut_ptr::<impl *mut T>::drop_in_place") and args:
            targ = (callee.get("targs") or [{}])[0]
            v = args[0] if d == "core::mem::drop" else mk_deref(args[0])
            bp = box_part(args[0]) if d != "core::mem::drop" else None
            if bp is not None and bp[1] in ("value", "links") and not (targ.get("dp", 0) or targ.get("nd")):
                # (types with drop glue are handled by drop_events; this keeps the move-out for glue-free payload types)
                v = ("call", b, "in-place-drop", (args[0],))
                A("moveout", box=bp[0], field=bp[1], how="in-place", res=v)
            evs.extend(self.drop_events(b, targ, v, t))
            for ev in evs:
                ev.a["via"] = d
            return evs, False
        if d == "core::mem::ManuallyDrop::<T>::new" and args:
            targ = (callee.get("targs") or [{}])[0]
            A("forget", value=args[0], ty=targ.get("s"), adt=targ.get("adt") if targ.get("peel", 0) == 0 else None, how="ManuallyDrop")
            return evs, False
        if d == "core::mem::forget" and args:
            targ = (callee.get("targs") or [{}])[0]
            A("forget", value=args[0], ty=targ.get("s"), adt=targ.get("adt") if targ.get("peel", 0) == 0 else None)
            return evs, False
        if d in ("alloc::boxed::Box::<T>::from_raw", "alloc::boxed::Box::<T, A>::from_raw_in") and args:
            targ = (callee.get("targs") or [{}])[0]
            if targ.get("adt") == "cactusref::rc::RcBox" and targ.get("peel", 0) == 0:
                # the allocation of an object re-wrapped in a Box: the Box owns it from here on -- its contents are moved
                # out of it or dropped with it, and the allocation is freed when the Box goes (the library never keeps
                # such a Box): the whole allocation is given up at this point
                # (the Box is the pointer, see expr.IDENTITY; what is moved out of it shows as moves of its fields, and
                # the allocation is freed where the Box is dropped: drop_events)
                pass
            return evs, False
        if d.endswith("Allocator::deallocate") or d in ("alloc::alloc::dealloc",):
            A("free", ptr=args[1] if len(args) > 1 else args[0], layout=args[-1])
            return evs, False
        if d.endswith("Allocator::allocate") or d.endswith("Allocator::allocate_zeroed") or d in ("alloc::alloc::alloc", "alloc::alloc::alloc_zeroed", "alloc::alloc::exchange_malloc", "alloc::boxed::Box::<T>::new", "alloc::boxed::Box::<T>::new_uninit"):
            A("alloc", what=d, res=res)
            return evs, False
        if d == "alloc::alloc::handle_alloc_error":
            A("panic", macro="alloc_error")
            return evs, True
        if d in ("core::ptr::eq",):
            A("ptr_eq", a=args[0], b_=args[1])
            return evs, False
        if d in ("core::cmp::PartialEq::eq", "core::cmp::PartialEq::ne") and len(args) == 2 and (callee.get("self_ty") or {}).get("adt") == "core::ptr::NonNull" \
                and (callee.get("self_ty") or {}).get("peel", 0) == 0:
            A("ptr_eq", a=mk_deref(args[0]), b_=mk_deref(args[1]))
            return evs, False
        # ---- vectors / collections of the trace and teardown
        if d.startswith("alloc::vec::Vec::<T") or d.startswith("alloc::collections::VecDeque::<T"):
            m = d.rsplit("::", 1)[1]
            m = {"push_back": "push", "push_front": "push", "pop_front": "pop", "pop_back": "pop"}.get(m, m)
            A("vec", op=m, recv=args[0] if args else None, args=args, res=res)
            if m in VEC_ALLOC:
                A("alloc", what=d)
            return evs, False
        if crate == "alloc":
            A("alloc", what=d, res=res)
            A("extcall", args=args, res=res)
            return evs, False
        # ---- Extend::extend on a Vec is a series of pushes
        if d == "core::iter::Extend::extend" and (callee.get("self_ty") or {}).get("adt") in ("alloc::vec::Vec", "alloc::collections::VecDeque"):
            A("vec", op="extend", recv=args[0] if args else None, args=args, res=res)
            A("alloc", what=d)
            return evs, False
        # ---- iterators
        if d.startswith("core::iter::"):
            m = d.rsplit("::", 1)[1]
            A("iter", op=m, recv=args[0] if args else None, args=args, res=res, argtys=t.get("argtys"))
            return evs, False
        # ---- user code through trait methods on the parameter
        tr = callee.get("trait")
        sty = callee.get("self_ty") or {}
        if tr and not callee.get("resolved") and (sty.get("k") == "param" or sty.get("hp")) and not d.startswith("core::ops::Fn"):
            A("user", what="call", trait=tr, method=d.rsplit("::", 1)[1], args=args, res=res, self_ty=sty.get("s"), dp=1)
            return evs, False
        if d.startswith("core::ops::Fn"):
            A("indirect", fnop=args[0] if args else None, args=args)
            return evs, False
        if tr and callee.get("resolved") and callee.get("resolved_crate") not in ("core", "alloc", "std", "hashbrown", "rustc_hash", self.fn.facts.crate if hasattr(self.fn, "facts") else "cactusref"):
            A("extcall", args=args, res=res)
            return evs, False
        # everything else in core is pure w.r.t. our vocabulary
        A("pure", args=args, res=res)
        return evs, False


TABLE_READERS = {"get", "contains_key", "contains", "is_empty", "len", "iter", "keys", "values", "get_key_value", "capacity", "hasher"}
TABLE_WRITERS = {"insert", "remove", "clear", "entry", "extract_if", "retain", "drain", "get_mut", "iter_mut", "values_mut",
                 "remove_entry", "or_insert", "or_default", "and_modify", "or_insert_with", "take", "replace", "insert_unique_unchecked",
                 "try_insert", "shrink_to_fit", "reserve", "extend"}
TABLE_ALLOC = {"insert", "entry", "or_insert", "or_default", "or_insert_with", "reserve", "try_insert", "extend", "with_capacity",
               "with_capacity_and_hasher", "clone", "insert_unique_unchecked", "shrink_to_fit", "try_reserve"}
VEC_ALLOC = {"push", "insert", "reserve", "with_capacity", "extend", "extend_from_slice", "resize", "append", "clone", "reserve_exact",
             "push_within_capacity", "split_off", "into_boxed_slice"}


ALLOC_CALLS = ("core::alloc::Allocator::allocate", "core::alloc::Allocator::allocate_zeroed", "alloc::boxed::Box::<T>::new",
               "alloc::alloc::alloc", "alloc::alloc::exchange_malloc", "alloc::boxed::Box::<T>::new_uninit")
_alloc_cache = {}


def alloc_root(e):
    """Site of the allocation call whose result the pointer expression *is* (through value-preserving
    wrappers: Try::branch / Ok / Continue payloads, casts), if any.  An expression that merely reads
    something out of an allocated container is not fresh."""
    if e in _alloc_cache:
        return _alloc_cache[e]
    r = None
    x = e
    n = 0
    while isinstance(x, tuple) and n < 12:
        n += 1
        k = x[0]
        if k == "call":
            if x[2] in ALLOC_CALLS:
                r = x[1]
                break
            if x[2] in ("core::ops::Try::branch", "core::result::Result::<T, E>::unwrap", "core::result::Result::<T, E>::expect",
                        "core::option::Option::<T>::unwrap", "core::option::Option::<T>::expect") and x[3]:
                x = x[3][0]
                continue
            break
        if k in ("field", "variant"):
            # payload projections only (".0" of Ok/Continue/Some), not fields of pointees
            if k == "field" and x[2] not in ("0", 0):
                break
            x = x[1]
            continue
        if k == "cast":
            x = x[2]
            continue
        break
    if len(_alloc_cache) < 200000:
        _alloc_cache[e] = r
    return r


def arith_chain(e):
    """Length of a chain x ± c ± c ± c … (a loop counter being stepped): the widening trigger."""
    n = 0
    step = None
    while isinstance(e, tuple) and e[0] == "bin" and e[1] in ("Add", "Sub", "AddUnchecked", "SubUnchecked") and n < 64:
        # a constant step, or the same symbolic step every time (`total += count` inside a loop over table entries:
        # the entry's count is one expression per loop site)
        if not is_const(e[3]):
            if step is not None and e[3] != step:
                break
            step = e[3]
        e = e[2]
        n += 1
    return n


def holds_guard(ty):
    """Does a value of this type own `Ref`/`RefMut` guards of link tables without being one itself?"""
    sname = ty.get("s", "") if ty else ""
    if ty.get("peel", 0) == 0 and ty.get("adt") in GUARD_ADTS:
        return False
    if ty.get("k") in ("ref", "refmut", "ptr", "rawptr") or sname.startswith("&") or sname.startswith("*"):
        return False
    return ("cell::Ref<" in sname or "cell::RefMut<" in sname) and "Links<" in sname


def mentions_guard_arg(args, st):
    """The call merely passes an already tracked guard value on (Option::unwrap, Result::ok, ...)."""
    gs = [g[0] for g in st.guards]
    return any(a == g or mentions(a, lambda x, g=g: x == g) for a in args for g in gs)


def widen_steps(e):
    """A loop counter stepped several times (x - 1 - 1 - 1 ...) is abstracted to ('stepped', x): finite, and
    the starting value stays visible to the rules."""
    n = arith_chain(e)
    if n == 0:
        return e
    base = e
    for _ in range(n):
        base = base[2]
    if base[0] == "stepped":
        return base
    if n > 3:
        return ("stepped", base)
    return e


def counter_read(e):
    """If e is the result of Cell::get on a box counter, return (site, box, field)."""
    if e[0] == "call" and e[2] == "core::cell::Cell::<T>::get" and e[3]:
        bp = box_part(e[3][0])
        if bp is not None and bp[1] in ("strong", "weak"):
            return e[1], bp[0], bp[1]
    return None


def classify_set(v, bp, st):
    box, field = bp
    if is_const(v, 0):
        return "zero"
    if is_const(v, MAX):
        return "max"
    if is_const(v, 1):
        return "one"
    if is_const(v):
        return "const:" + v[1]
    if v[0] == "bin" and v[1] in ("Sub", "Add", "SubUnchecked", "AddUnchecked") and is_const(v[3], 1):
        g = counter_read(v[2])
        if g is not None and g[1] == box and g[2] == field:
            if (g[0], box, field) in st.fresh:
                return "dec" if v[1].startswith("Sub") else "inc"
            return "stale-" + ("dec" if v[1].startswith("Sub") else "inc")
    # (count.checked_add(1) as Some).0 and friends
    inner = v
    if inner[0] == "field" and inner[1][0] == "variant" and inner[1][2] == "Some":
        inner = inner[1][1]
    if inner[0] == "call" and inner[2].startswith("core::num::<impl usize>::") and len(inner[3]) == 2 and is_const(inner[3][1], 1):
        m = inner[2].rsplit("::", 1)[1]
        g = counter_read(inner[3][0])
        if g is not None and g[1] == box and g[2] == field:
            fresh = (g[0], box, field) in st.fresh
            if m in ("checked_add", "wrapping_add", "saturating_add", "unchecked_add", "strict_add"):
                return "inc" if fresh else "stale-inc"
            if m in ("checked_sub", "wrapping_sub", "saturating_sub", "unchecked_sub", "strict_sub"):
                return "dec" if fresh else "stale-dec"
    # count - amount (group lowering by a computed amount)
    if v[0] == "bin" and v[1] in ("Sub", "SubUnchecked") and not is_const(v[3], 1):
        g = counter_read(v[2])
        if g is not None and g[1] == box and g[2] == field:
            return "sub" if (g[0], box, field) in st.fresh else "stale-sub"
    if v[0] == "call" and v[2].startswith("core::num::<impl usize>::") and v[2].rsplit("::", 1)[1] in ("saturating_sub", "wrapping_sub") and len(v[3]) == 2 and not is_const(v[3][1], 1):
        g = counter_read(v[3][0])
        if g is not None and g[1] == box and g[2] == field:
            return "sub" if (g[0], box, field) in st.fresh else "stale-sub"
    if v[0] == "call" and v[2] in ("core::num::<impl usize>::wrapping_sub", "core::num::<impl usize>::saturating_sub") and is_const(v[3][1], 1):
        g = counter_read(v[3][0])
        if g is not None and g[1] == box and g[2] == field:
            return "dec"
    return "other"


def classify_init(v):
    # a newtype of the crate around the counter cell (`Counter(Cell::new(1))`)
    n = 0
    while v[0] == "agg" and v[2].startswith("cactusref::") and len(v[5]) == 1 and n < 3:
        v = v[5][0][1]
        n += 1
    if v[0] == "call" and v[2] == "core::cell::Cell::<T>::new" and v[3]:
        if is_const(v[3][0], 1):
            return "one"
        if is_const(v[3][0], 0):
            return "zero"
    return "other"


def iter_table(e):
    """Box whose link table the iterator expression `e` walks, if any."""
    seen = 0
    while isinstance(e, tuple) and seen < 12:
        seen += 1
        if e[0] == "ref":
            e = e[1]
            continue
        if e[0] == "call":
            d = e[2]
            if d.startswith("hashbrown::") and d.rsplit("::", 1)[1] in ("iter", "keys", "values", "iter_mut", "drain") and e[3]:
                return table_of(e[3][0])
            if d.startswith("core::iter::") and e[3]:
                e = e[3][0]
                continue
        return None
    return None
