"""GATE-1/2/3/5 (ordering of tests in Rc::drop and Rc::clone), EFF-2 / TS-7 / TS-9
(every counter write belongs to an accounting pattern) and KILL-1."""
from interp import DEAD, LIVE, ALL, alloc_root
from expr import show, mentions, is_const, MAX, box_part
from rules_ts import add, rem, is_elem_box, sub

EFFECT_KINDS = ("set", "tblwrite", "borrow", "moveout", "free", "user", "handle_drop", "alloc", "vec", "iter", "tbl",
                "store", "indirect", "extcall", "fill", "handle_new", "forget")


def short(path):
    """`Rc::try_unwrap`-style name of an entry point for finding keys."""
    p = path.replace("cactusref::", "")
    if " as " in p and ">::" in p:
        ty = p.split("<", 1)[1].split(" as ")[0].split("::")[-1].split("<")[0]
        tr = p.split(" as ")[1].split(">::")[0].split("::")[-1].split("<")[0]
        return "%s:%s::%s" % (ty, tr, p.rsplit("::", 1)[1])
    if "impl core::ops::Drop for" in p:
        return "Rc:Drop::drop"
    segs = [s for s in p.split("::") if not s.startswith("<")]
    return "::".join(segs[-2:])


def is_trace_container(ev):
    """Operations on containers that are not link tables (the trace's map/set/worklist)."""
    if ev.kind == "vec":
        return True
    if ev.kind == "tbl":
        return ev.get("table") is None
    return False


class Gate:
    """GATE-1: dropping a dead handle is inert and the first write is preceded by a liveness test.
    GATE-2/3: no trace structure, allocation or foreign table access unless this object's table was seen non-empty.
    GATE-5: death / orphan verdict are always followed by the teardown in the same call."""
    id = "GATE"

    def __init__(self, entry_kind, self_box):
        self.entry_kind = entry_kind
        self.self_box = self_box
        self.seen = {"first_test": 0, "own_dec": 0, "fast_region_events": 0, "trace_events": 0}

    def on_counter_test(self, eng, st, box, field, op, c, truth, b):
        if self.entry_kind != "rc_drop" or box != self.self_box or field != "strong":
            return None
        if ("own_dec",) not in st.flags and st.strong(box) <= DEAD:
            self.seen["first_test"] += 1
            eng.obl("GATE-1", "dead-handle-path", b)
            return add(st, ("g_inert",))
        return None

    def on_event(self, eng, ev, st):
        if self.entry_kind == "rc_drop":
            if ("g_inert",) in st.flags and ev.kind in EFFECT_KINDS:
                eng.violate("GATE-1", "dead-handle-not-inert:%s" % ev.kind, "dropping a handle to a dead object performs `%s` (it must return without any effect)" % ev.kind, ev.b, st)
            if ev.kind == "set" and ev.box == self.self_box and ev.field == "strong" and ("own_dec",) not in st.flags:
                if st.strong(ev.box) & DEAD:
                    eng.violate("GATE-1", "write-before-liveness-test", "Rc::drop writes the strong count before ruling out that the object is already dead (strong-state %s)" % "".join(sorted(st.strong(ev.box))), ev.b, st)
                self.seen["own_dec"] += 1
                eng.obl("GATE-1", "first-write", ev.b)
                return add(st, ("own_dec",))
            if ("g_nonempty",) not in st.flags and ("own_dec",) in st.flags:
                bad = None
                if ev.kind == "alloc":
                    bad = "allocates (%s)" % ev.get("what")
                elif is_trace_container(ev):
                    bad = "uses a trace container (%s)" % ev.get("callee")
                elif ev.kind in ("borrow",) and ev.box is not None and ev.box != self.self_box:
                    bad = "borrows another object's link table"
                if bad:
                    eng.violate("GATE-2", "trace-before-emptiness-test", "Rc::drop %s on a path that has not observed this object's link table to be non-empty" % bad, ev.b, st)
            if ev.kind in ("alloc", "vec") or is_trace_container(ev):
                self.seen["trace_events"] += 1
                eng.obl("GATE-2", "trace-or-alloc-site", ev.b)
        elif self.entry_kind == "rc_clone":
            eng.obl("GATE-3", "clone-event:%s" % ev.kind, ev.b)
            if ev.kind == "alloc" or is_trace_container(ev) or ev.kind in ("iter", "borrow", "tbl"):
                eng.violate("GATE-3", "clone-not-constant:%s" % ev.kind, "Rc::clone performs `%s` (%s); it must only touch the strong count" % (ev.kind, ev.get("callee")), ev.b, st)
        return None

    def on_empty_known(self, eng, st, box, truth, b):
        if self.entry_kind == "rc_drop" and box == self.self_box:
            return add(st, ("g_nonempty",) if not truth else ("g_empty",))
        return None

    def on_return(self, eng, ev, st):
        if self.entry_kind != "rc_drop":
            return None
        eng.obl("GATE-5", "return", ev.b)
        sb = self.self_box
        if ("own_dec",) in st.flags:
            dead = st.strong(sb) <= DEAD
            if dead and not any(f[0] in ("dropped",) and f[1] == sb and f[2] == "value" for f in st.flags):
                eng.violate("GATE-5", "zero-without-teardown", "the strong count reached zero but drop returns without destroying the value", ev.b, st)
            if not dead and ("g_nonempty",) in st.flags and not any(f[0] in ("verdict", "verdict_checked") for f in st.flags) and not any(f[0] == "unwinding" for f in st.flags):
                eng.violate("GATE-5", "no-orphan-test", "a live object with adoption links is dropped without evaluating the orphan test", ev.b, st)
            for f in st.flags:
                if f[0] == "verdict" and st.empty(("loc", f[1])) is True:
                    continue    # the verdict holds vacuously for an empty trace result: there is no group
                if f[0] == "verdict" and not any(g[0] in ("group_lowered", "group_iter") and g[1] == f[1] for g in st.flags) and not any(g[0] == "unwinding" for g in st.flags):
                    eng.violate("GATE-5", "orphan-without-teardown", "the orphan test succeeded but drop returns without tearing the group down", ev.b, st)
        return None


class Counters:
    """EFF-2 / TS-7 / TS-9: every write of a counter is an increment paired with a new handle, the
    decrement of a dropped handle, a group lowering, a sole-owner extraction, a death-path release or
    the initialisation of a fresh allocation; handles are only created with their count accounted for."""
    id = "CNT"

    def __init__(self, entry_kind, self_box, fn):
        self.entry_kind = entry_kind
        self.self_box = self_box
        self.fn = fn
        self.sites = {}

    def note(self, cls, b):
        self.sites.setdefault(cls, set()).add(b)

    SETTLE = ("user", "indirect", "handle_drop", "return", "resume", "free", "abort", "panic")

    def on_event(self, eng, ev, st):
        if ev.kind not in self.SETTLE:
            return None
        pend = [f for f in st.flags if f[0] == "wdec_pending"]
        if not pend:
            return None
        for f in pend:
            if not (st.strong(f[1]) <= DEAD or ("killed", f[1]) in st.flags):
                eng.violate("EFF-2", "stray-weak-decrement", "the weak count of %s is lowered outside a death path, Weak::drop or a sole-owner extraction" % show(f[1]), f[2], st)
        return rem(st, lambda f: f[0] == "wdec_pending")

    def on_set(self, eng, ev, st):
        b, f, cls = ev.box, ev.field, ev.cls
        self.note("%s:%s" % (f, cls), ev.b)
        eng.obl("EFF-2", "write:%s:%s" % (f, cls), ev.b)
        if f == "strong" and cls == "inc":
            eng.obl("TS-7", "increment", ev.b)
        if cls.startswith("other") or cls.startswith("const:") or cls.startswith("stale"):
            eng.violate("EFF-2", "unaccounted-write:%s" % f, "the %s count of %s is written with a value outside every accounting pattern (%s: %s)" % (f, show(b), cls, show(ev.value)[:80]), ev.b, st)
            return None
        if cls == "one":
            if alloc_root(b) is None:
                eng.violate("EFF-2", "init-on-existing:%s" % f, "the %s count of an existing object %s is reset to 1" % (f, show(b)), ev.b, st)
            return add(st, ("init", f, b))
        if f == "strong":
            if cls == "inc":
                ss = st.strong(b)
                if not (ss <= LIVE):
                    eng.violate("TS-7", "inc-on-dead", "the strong count of %s is raised although the object may be dead (strong-state %s): a dead object would be revived" % (show(b), "".join(sorted(ss))), ev.b, st)
                if ("inc_pending", "Rc", b) in st.flags:
                    eng.violate("TS-9", "double-increment:Rc", "the strong count of %s is raised twice for one new handle" % show(b), ev.b, st)
                # the handle may have been put together first and counted afterwards (`let twin = ManuallyDrop::new(..);
                # twin.inner().inc_strong()`): the pairing does not depend on the order of the two steps
                early = [g for g in st.flags if g[0] == "xfer_new" and g[1] == "Rc" and g[2] == b]
                if early:
                    return rem(st, lambda g: g == early[0])
                return add(st, ("inc_pending", "Rc", b))
            if cls == "dec":
                if self.entry_kind == "rc_drop" and b == self.self_box:
                    if ("cnt_own_dec",) in st.flags:
                        eng.violate("TS-9", "second-own-decrement", "Rc::drop lowers the strong count of its own object twice on one path", ev.b, st)
                    return add(st, ("cnt_own_dec",))
                if is_elem_box(b):
                    return None  # group lowering: PROV-1 / GATE-4
                if st.strong(b) == frozenset("O"):
                    return None  # sole-owner extraction: KILL-1 / API-1
                eng.violate("EFF-2", "stray-decrement", "the strong count of %s is lowered outside a handle drop, a group teardown or a sole-owner extraction (strong-state %s)" % (show(b), "".join(sorted(st.strong(b)))), ev.b, st)
                return None
            if cls == "sub":
                if not is_elem_box(b):
                    eng.violate("EFF-2", "stray-subtraction", "the strong count of %s is lowered by a computed amount outside a group teardown" % show(b), ev.b, st)
                return None
            if cls == "zero":
                if not is_elem_box(b):
                    eng.violate("EFF-2", "stray-zeroing", "the strong count of %s is set to zero outside a group teardown" % show(b), ev.b, st)
                return None
            return None
        # weak
        if cls == "inc":
            if ("inc_pending", "Weak", b) in st.flags:
                eng.violate("TS-9", "double-increment:Weak", "the weak count of %s is raised twice for one new handle" % show(b), ev.b, st)
            early = [g for g in st.flags if g[0] == "xfer_new" and g[1] == "Weak" and g[2] == b]
            if early:
                return rem(st, lambda g: g == early[0])
            return add(st, ("inc_pending", "Weak", b))
        if cls == "dec":
            dead = st.strong(b) <= DEAD
            own = self.entry_kind == "weak_drop" and b == self.self_box
            killed = ("killed", b) in st.flags
            if not (dead or own or killed):
                if st.strong(b) == frozenset("O") and self.entry_kind not in ("rc_drop", "weak_drop") and not is_elem_box(b):
                    # sole owner: the strong decrement of the extraction may follow; settled where control can leave
                    return add(st, ("wdec_pending", b, ev.b))
                eng.violate("EFF-2", "stray-weak-decrement", "the weak count of %s is lowered outside a death path, Weak::drop or a sole-owner extraction" % show(b), ev.b, st)
            return None
        if cls in ("zero", "max", "sub"):
            eng.violate("EFF-2", "unaccounted-write:weak", "the weak count of %s is overwritten with a constant" % show(b), ev.b, st)
        return None

    def on_store(self, eng, ev, st):
        # a whole header struct written into a fresh allocation: `ptr::write(&mut (*b).header, Header::new())`
        p = ev.place
        v = ev.value
        if p[0] == "field" and p[3] == "cactusref::rc::RcBox" and p[1][0] == "deref" and v[0] == "agg" and v[2].startswith("cactusref::"):
            if counters_start_at_one(("agg", "adt", "", "", 0, v[5])):
                b = p[1][1]
                eng.obl("EFF-2", "write:header:init", ev.b)
                if alloc_root(b) is None:
                    eng.violate("EFF-2", "init-on-existing:header", "the counters of an existing object %s are reset" % show(b), ev.b, st)
                return add(st, ("init", "strong", b), ("init", "weak", b))
        return self._raw_write(eng, ev, st, p)

    def on_fill(self, eng, ev, st):
        return None

    PTR_ARITH = ("add", "sub", "offset", "byte_add", "byte_sub", "byte_offset", "wrapping_add", "wrapping_sub", "wrapping_offset",
                 "wrapping_byte_add", "wrapping_byte_sub", "map_addr", "with_addr", "from_exposed_addr_mut", "with_exposed_provenance_mut")

    def _raw_write(self, eng, ev, st, p):
        """A store through a pointer computed by arithmetic from a handle's box pointer does not name a field:
        whichever of strong / weak / links / value it hits, no accounting rule sees it."""
        if box_part(p) is not None:
            return None
        def handle_ptr(x):
            return x[0] == "field" and x[2] == "ptr" and len(x) > 3 and x[3] in ("cactusref::rc::Rc", "cactusref::rc::Weak", "cactusref::link::Link")
        def arith(x):
            return x[0] == "call" and x[2].rsplit("::", 1)[-1] in self.PTR_ARITH and any(mentions(a, handle_ptr) for a in x[3])
        if mentions(p, arith):
            eng.obl("EFF-2", "write:raw", ev.b)
            eng.violate("EFF-2", "raw-write-into-box", "memory of an object's allocation is written through a pointer computed by arithmetic from the handle's box pointer (%s): the write bypasses the counters' / table's accounting" % show(p)[:80], ev.b, st)
        return None

    def on_handle_new(self, eng, ev, st):
        kind, b = ev.handle, ev.ptr
        self.note("handle_new:%s" % kind, ev.b)
        eng.obl("TS-9", "handle:%s" % kind, ev.b)
        if b is None:
            return None
        fl = ("inc_pending", kind, b)
        if fl in st.flags:
            return rem(st, lambda f: f == fl)
        if fresh_box(b, st):
            return None
        if kind == "Weak" and (is_sentinel(b) or ("dangling", b) in st.flags):
            return None
        return add(st, ("xfer_new", kind, b, ev.b))

    def on_ptr_sentinel(self, eng, st, ptr, is_s, b):
        if is_s:
            # (a dangling Weak put together before the sentinel test needs no count either)
            st = rem(st, lambda g: g[0] == "xfer_new" and g[1] == "Weak" and g[2] == ptr)
            return add(st, ("dangling", ptr))
        return None

    def on_forget(self, eng, ev, st):
        adt = ev.get("adt")
        if adt in ("cactusref::rc::Rc", "cactusref::rc::Weak"):
            from expr import mk_field
            return add(st, ("forgot", adt.rsplit("::", 1)[1], mk_field(ev.value, "ptr", adt)))
        return None

    def on_return(self, eng, ev, st):
        unsafe_fn = bool(self.fn.f.get("unsafe"))
        for f in st.flags:
            if f[0] == "inc_pending":
                if unsafe_fn and from_raw_param(f[2], self.fn):
                    continue   # the caller's raw pointer owns the new count (documented contract of an unsafe fn)
                eng.violate("TS-9", "count-without-handle:%s" % f[1], "the %s count of %s is raised on this path but no %s handle to it is created" % ("strong" if f[1] == "Rc" else "weak", show(f[2]), f[1]), ev.b, st)
            elif f[0] == "xfer_new":
                kind, b = f[1], f[2]
                ok = False
                for g in st.flags:
                    if g[0] == "forgot" and g[2] == b:
                        if g[1] == kind:
                            ok = True
                        elif kind == "Weak" and ("killed", b) in st.flags:
                            ok = True
                if not ok and unsafe_fn and from_raw_param(b, self.fn):
                    ok = True
                if not ok:
                    eng.violate("TS-9", "handle-without-count:%s" % kind, "a %s handle to %s is created without raising the count, a fresh allocation, or consuming another handle" % (kind, show(b)[:120]), ev.b, st)
        return None


def fresh_box(b, st):
    """Pointer to an allocation made on this path whose counters were initialised to 1."""
    if alloc_root(b) is None:
        return False
    if ("init", "strong", b) in st.flags and ("init", "weak", b) in st.flags:
        return True
    # Box::new(RcBox { strong: Cell::new(1), weak: Cell::new(1), .. }); a counter the aggregate starts elsewhere
    # (new_cyclic builds the box with strong = usize::MAX) counts if it was set to 1 on this path before the handle
    found = []

    def pred(x):
        if x[0] == "agg" and x[2] == "cactusref::rc::RcBox":
            ones = counters_at_one(x)
            found.append(all(f in ones or ("init", f, b) in st.flags for f in ("strong", "weak")))
            return True
        return False
    mentions(b, pred)
    return bool(found) and all(found)


def counters_start_at_one(agg):
    return counters_at_one(agg) == {"strong", "weak"}


def counters_at_one(agg):
    """The counters of an RcBox (or of a header struct nested in it) that are initialised with Cell::new(1)."""
    vals = {}

    def walk(a, depth):
        for name, v in a[5]:
            if name in ("strong", "weak"):
                vals[name] = v
            elif v[0] == "agg" and v[2].startswith("cactusref::") and depth < 2:
                walk(v, depth + 1)
    walk(agg, 0)
    from interp import classify_init
    ones = set()
    for fld in ("strong", "weak"):
        v = vals.get(fld)
        if v and classify_init(v) == "one":     # Cell::new(1), possibly inside a newtype of the crate
            ones.add(fld)
    return ones


def is_sentinel(b):
    return mentions(b, lambda x: x[0] == "cast" and x[1] == "IntToPtr" and is_const(x[2], MAX))


def from_raw_param(b, fn):
    """The pointer derives from a raw-pointer parameter (the caller owns the count, assumption A5)."""
    def pred(x):
        if x[0] == "param":
            ty = fn.locals[x[1]]["ty"]
            return ty.get("k") in ("ptr", "ptrmut")
        return False
    return mentions(b, pred)


class Kill:
    """KILL-1: a Live -> Zero transition outside Rc::drop must first make sure no peer records the object."""
    id = "KILL"

    def __init__(self, entry_kind, self_box, entry_name):
        self.entry_kind = entry_kind
        self.self_box = self_box
        self.entry_name = entry_name
        self.kill_sites = set()

    def on_set(self, eng, ev, st):
        if ev.field != "strong" or ev.cls != "dec":
            return None
        b = ev.box
        if self.entry_kind == "rc_drop" and (b == self.self_box or is_elem_box(b)):
            return None
        if st.strong(b) == frozenset("O"):
            self.kill_sites.add(ev.b)
            eng.obl("KILL-1", "kill-site", ev.b)
            if st.empty(b) is not True and ("purged", b) not in st.flags:
                # the purge may follow the decrement as long as nothing can observe the state in between: the
                # obligation is settled where control can leave the library (user code, return, unwinding) or the
                # allocation is freed
                return add(st, ("kill_pending", b, ev.b))
        return None

    SETTLE = ("user", "indirect", "handle_drop", "return", "resume", "free", "abort", "panic")

    def on_moveout(self, eng, ev, st):
        # a table seen empty and then moved out of its allocation stays "seen empty" for this rule
        if ev.field == "links" and st.empty(ev.box) is True:
            return add(st, ("purged", ev.box))
        return None

    def on_event(self, eng, ev, st):
        if ev.kind not in self.SETTLE:
            return None
        for f in st.flags:
            if f[0] == "kill_pending" and ("purged", f[1]) not in st.flags and st.empty(f[1]) is not True:
                eng.violate("KILL-1", "%s:kills-without-unlink" % short(self.entry_name), "%s takes the last strong reference of %s outside Rc::drop without checking that no adoption links exist or purging them before control leaves the library (peers keep records naming the given-up allocation; a non-empty table is leaked)" % (short(self.entry_name), show(f[1])), f[2], st)
        return None
