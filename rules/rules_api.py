"""SYM-1..4 (bookkeeping schema), EFF-3, TS-8 (count getters), API-1 (guard <=> outcome of the
handle-consuming API), FWD-1 (forwarding trait impls)."""
from interp import DEAD, LIVE, ALL, counter_read, alloc_root, Ev
from expr import RCBOX
from expr import show, mentions, is_const, mk_field, mk_deref, mk_ref, box_part, table_of, MAX
from rules_ts import add, rem, sub, is_elem_box
from rules_gate import short
from rules_trace import LINK, KIND_NAMES, elem_of, iter_source

RC = "cactusref::rc::Rc"
WEAK = "cactusref::rc::Weak"


ABSENT = ("absent",)


def link_key(key, st):
    """(kind index or None, target box pointer) of a link-valued expression."""
    if key[0] == "ref":
        key = key[1]
    if key[0] == "agg" and key[2] == LINK:
        d = dict(key[5])
        k = d.get("kind")
        kind = str(k[4]) if k is not None and k[0] == "agg" else None
        return kind, d.get("ptr")
    return st.variant(mk_field(key, "kind", LINK)), mk_field(key, "ptr", LINK)


class TableOps:
    """Abstracts hash-map calls on link tables into add / sub operations and checks SYM-4:
    additions add exactly one, subtraction is checked and never stores a zero count."""
    id = "SYM"

    def __init__(self, closures=None):
        self.closures = closures
        self.sites = {"add": set(), "sub": set()}

    def on_pure(self, eng, ev, st):
        d = ev.callee
        if d.startswith("core::num::") and d.rsplit("::", 1)[1] in ("checked_sub", "saturating_sub", "wrapping_sub", "overflowing_sub") and len(ev.args) == 2:
            g = _tbl_get_in(ev.args[0])
            if g is not None:
                return add(st, ("subamt", g, ev.args[1], d.rsplit("::", 1)[1]))
            if ev.args[0][0] == "entryval" or (ev.args[0][0] == "deref" and ev.args[0][1][0] == "ref" and ev.args[0][1][1][0] == "entryval"):
                ev0 = ev.args[0] if ev.args[0][0] == "entryval" else ev.args[0][1][1]
                return add(st, ("subamt2", ev0, ev.args[1], d.rsplit("::", 1)[1]))
        return None

    def on_tbl(self, eng, ev, st):
        tb = ev.get("table")
        if ev.op == "and_modify" and len(ev.args) >= 2 and self.closures is not None:
            for f in st.flags:
                if f[0] == "entry" and (ev.recv == f[1] or sub(ev.recv, f[1])) and f[2] is not None:
                    cl = self.closures.run(ev.args[1], params={2: ("param", 2)})
                    amt = None
                    if cl is not None and len(cl["stores"]) == 1 and len(cl["effects"]) == 1:
                        sto = cl["stores"][0]
                        old = mk_deref(("param", 2))
                        v = sto.value
                        if sto.place == old and v[0] == "bin" and v[1] in ("Add", "AddUnchecked"):
                            amt = v[3] if v[2] == old else (v[2] if v[3] == old else None)
                    return add(st, ("entry_mod", f[1], amt))
            return None
        if ev.op in ("or_insert", "or_default", "or_insert_with"):
            for f in st.flags:
                if f[0] == "entry" and (ev.recv == f[1] or sub(ev.recv, f[1])):
                    init = ev.args[1] if ev.op == "or_insert" and len(ev.args) > 1 else ("const", "0", None)
                    mod = [g for g in st.flags if g[0] == "entry_mod" and g[1] == f[1]]
                    if mod and f[2] is not None:
                        # entry(k).and_modify(|c| *c += a).or_insert(a): one addition of `a`
                        amt = mod[0][2]
                        kind, target = link_key(f[3], st)
                        self.sites["add"].add(ev.b)
                        eng.obl("SYM-4", "add", ev.b)
                        if amt is None or not is_const(amt, 1) or init != amt:
                            eng.violate("SYM-4", "insert-not-plus-one", "recording a link does not add exactly one to its count (and_modify by %s, first value %s)" % (show(amt) if amt else "?", show(init)[:40]), ev.b, st)
                        return add(st, ("top", "add", f[2], kind, target, amt))
                    return add(st, ("slot", ev.res, f[2], f[3], init))
            return None
        if ev.op == "get_mut" and tb is not None and len(ev.args) >= 2:
            return add(st, ("mutslot", ev.res, tb, ev.args[1]))
        # match map.entry(k) { Occupied(e) => *e.get_mut() += a, Vacant(e) => { e.insert(a); } }
        if tb is None and ev.recv is not None and ev.container.rsplit("::", 1)[-1] in ("OccupiedEntry", "VacantEntry"):
            for f in st.flags:
                if f[0] == "entry" and f[2] is not None and sub(ev.recv, f[1]):
                    if ev.container.endswith("OccupiedEntry") and ev.op in ("get_mut", "into_mut", "get"):
                        return add(st, ("slot", ev.res, f[2], f[3], ("const", "0", None), "occupied"))
                    if ev.container.endswith("OccupiedEntry") and ev.op in ("remove", "remove_entry"):
                        # the record is deleted: a subtraction by (at least) what is recorded
                        kind, target = link_key(f[3], st)
                        amt = None
                        old = ("entryval", mk_deref(ev.recv) if ev.recv[0] == "ref" else ev.recv)
                        for g in st.flags:
                            if g[0] == "subamt2" and g[1] == old:
                                amt = g[2]
                        self.sites["sub"].add(ev.b)
                        eng.obl("SYM-4", "sub:remove", ev.b)
                        return add(st, ("top", "sub", f[2], kind, target, amt))
                    if ev.container.endswith("VacantEntry") and ev.op in ("insert", "insert_entry") and len(ev.args) >= 2:
                        kind, target = link_key(f[3], st)
                        self.sites["add"].add(ev.b)
                        eng.obl("SYM-4", "add", ev.b)
                        if not is_const(ev.args[1], 1):
                            eng.violate("SYM-4", "insert-not-plus-one", "a link that was not recorded before is created with count %s instead of 1" % show(ev.args[1])[:40], ev.b, st)
                        st = rem(st, lambda g: g[0] == "top" and g[1] == "sub" and g[2] == f[2] and g[5] == ABSENT and g[3] == kind and g[4] == target)
                        return add(st, ("top", "add", f[2], kind, target, ev.args[1]))
            return None
        if tb is None:
            return None
        if ev.op == "remove" and len(ev.args) >= 2:
            k_ = ev.args[1][1] if ev.args[1][0] == "ref" else ev.args[1]
            pend = [f for f in st.flags if f[0] == "zero_pending" and f[1] == tb and f[2] == k_]
            if pend:
                # the entry that was lowered to (possibly) zero is pruned
                eng.obl("SYM-4", "sub:remove", ev.b)
                return rem(st, lambda g: g in pend)
            kind, target = link_key(ev.args[1], st)
            amt = self._amount(st, tb, ev.args[1])
            self.sites["sub"].add(ev.b)
            eng.obl("SYM-4", "sub:remove", ev.b)
            return add(st, ("top", "sub", tb, kind, target, amt))
        if ev.op == "insert" and len(ev.args) >= 3:
            kind, target = link_key(ev.args[1], st)
            v = ev.args[2]
            g = _tbl_get_in(v)
            if g is not None and table_of(g[3][0]) == tb:
                # re-insertion of a reduced count
                amt = self._amount(st, tb, ev.args[1])
                eng.obl("SYM-4", "sub:reinsert", ev.b)
                nonzero = mentions(v, lambda x: x[0] == "call" and x[2].startswith("core::num::NonZero") and x[2].endswith("::get"))
                if not nonzero:
                    # an explicit `remaining != 0` / `remaining > 0` test on the value that is written back
                    nonzero = any(h[0] == "cmp" and h[2] == v and is_const(h[3], 0) and ((h[1] == "Ne" and h[4]) or (h[1] == "Eq" and not h[4]) or (h[1] == "Gt" and h[4]) or (h[1] == "Le" and not h[4])) for h in st.flags)
                how = [f[3] for f in st.flags if f[0] == "subamt" and f[1] == g]
                # `if count > n { insert(k, count - n) } else { remove(k) }`, or the open-coded checked_sub
                # `if count >= n { NonZero::new(count - n) -> Some(r) => insert(k, r.get()) }`
                v2, nz_known = unwrap_nonzero(v)
                if v2[0] == "bin" and v2[1] in ("Sub", "SubUnchecked"):
                    cnt_, n_ = v2[2], v2[3]
                    guarded = any(h[0] == "cmp" and ((h[1] == "Gt" and h[2] == cnt_ and h[3] == n_ and h[4]) or (h[1] == "Lt" and h[2] == n_ and h[3] == cnt_ and h[4])
                                                     or (h[1] == "Le" and h[2] == cnt_ and h[3] == n_ and not h[4]) or (h[1] == "Ge" and h[2] == n_ and h[3] == cnt_ and not h[4])) for h in st.flags)
                    weakly = any(h[0] == "cmp" and ((h[1] == "Ge" and h[2] == cnt_ and h[3] == n_ and h[4]) or (h[1] == "Le" and h[2] == n_ and h[3] == cnt_ and h[4])
                                                    or (h[1] == "Lt" and h[2] == cnt_ and h[3] == n_ and not h[4]) or (h[1] == "Gt" and h[2] == n_ and h[3] == cnt_ and not h[4])) for h in st.flags)
                    if guarded or (weakly and (nz_known or nonzero)):
                        self.sites["sub"].add(ev.b)
                        return add(st, ("top", "sub", tb, kind, target, n_))
                if not nonzero:
                    eng.violate("SYM-4", "may-store-zero", "a link count is written back after subtraction without proof that it is non-zero (entries with count 0 keep a table non-empty forever)", ev.b, st)
                if not how or how[0] not in ("checked_sub",) and not (how[0] == "saturating_sub" and nonzero):
                    eng.violate("SYM-4", "unchecked-subtraction", "a link count is lowered with arithmetic that can wrap below zero", ev.b, st)
                self.sites["sub"].add(ev.b)
                return add(st, ("top", "sub", tb, kind, target, amt))
            # `if let Some(c) = get_mut(k) { *c += 1 } else { insert(k, 1) }`: the first record of a link
            if self._amount(st, tb, ev.args[1]) == ABSENT or self._known_absent(st, tb, ev.args[1]):
                self.sites["add"].add(ev.b)
                eng.obl("SYM-4", "add", ev.b)
                if is_const(v, 0):
                    # `if !contains_key(k) { insert(k, 0) }  *get_mut(k) += 1`: the record is created empty and
                    # counted right after; settled at the in-place addition (or reported at return)
                    k0 = ev.args[1]
                    return add(st, ("zero_insert", tb, k0[1] if k0[0] == "ref" else k0, ev.b))
                if not is_const(v, 1):
                    eng.violate("SYM-4", "insert-not-plus-one", "a link that was not recorded before is created with count %s instead of 1" % show(v)[:40], ev.b, st)
                st = rem(st, lambda g: g[0] == "top" and g[1] == "sub" and g[2] == tb and g[5] == ABSENT and g[3] == kind and g[4] == target)
                return add(st, ("top", "add", tb, kind, target, v))
            # a plain overwrite of a link count
            eng.violate("SYM-4", "link-count-overwritten", "a link count in the table of %s is overwritten with %s instead of being adjusted" % (show(tb), show(v)[:80]), ev.b, st)
            return None
        if ev.op == "entry" and len(ev.args) >= 2:
            return add(st, ("entry", ev.res, tb, ev.args[1]))
        if ev.op in ("or_insert", "or_default", "or_insert_with"):
            for f in st.flags:
                if f[0] == "entry" and (ev.recv == f[1] or sub(ev.recv, f[1])):
                    init = ev.args[1] if ev.op == "or_insert" and len(ev.args) > 1 else ("const", "0", None)
                    return add(st, ("slot", ev.res, f[2], f[3], init))
        if ev.op in ("clear",):
            return add(st, ("top", "clear", tb, None, None, None))
        return None

    def on_variant(self, eng, st, inner, v, b):
        # `let Entry::Occupied(slot) = map.entry(k) else { return }`: a vacant entry means there is no record
        if v == "1" and inner[0] == "call" and inner[2].startswith("hashbrown::HashMap") and inner[2].endswith("::entry") and len(inner[3]) >= 2:
            tb = table_of(inner[3][0])
            if tb is not None:
                kind, target = link_key(inner[3][1], st)
                return add(st, ("top", "sub", tb, kind, target, ABSENT))
        # a lookup of an entry that was just written through cannot fail
        if v == "0" and inner[0] == "call" and inner[2].startswith("hashbrown::HashMap") and inner[2].rsplit("::", 1)[1] in ("get", "get_mut", "get_key_value") and len(inner[3]) >= 2:
            tb0 = table_of(inner[3][0])
            if tb0 is not None and any(f[0] in ("zero_pending", "zero_insert") and f[1] == tb0 and _same_key(f[2], inner[3][1]) for f in st.flags):
                return False
        # get_mut(k) returned None: there is no record to lower (the subtraction is vacuous)
        if v == "0" and inner[0] == "call" and inner[2].startswith("hashbrown::HashMap") and inner[2].endswith("::get_mut") and len(inner[3]) >= 2:
            tb = table_of(inner[3][0])
            if tb is not None:
                kind, target = link_key(inner[3][1], st)
                return add(st, ("top", "sub", tb, kind, target, ABSENT))
        return None

    def on_store(self, eng, ev, st):
        for f in st.flags:
            if f[0] == "mutslot":
                payload = mk_field(("variant", f[1], "Some", 1), "0", "")
                if ev.place == mk_deref(payload):
                    tb, key = f[2], f[3]
                    kind, target = link_key(key, st)
                    old = mk_deref(payload)
                    v = ev.value
                    eng.obl("SYM-4", "sub:in-place", ev.b)
                    self.sites["sub"].add(ev.b)
                    # `*count -= n.min(*count)` followed by `if *count == 0 { remove }`: a saturating subtraction
                    if v[0] == "bin" and v[1] in ("Sub", "SubUnchecked") and v[2] == old and v[3][0] == "call" and v[3][2] in ("core::cmp::Ord::min", "core::cmp::min") and len(v[3][3]) == 2 and old in v[3][3]:
                        amt = v[3][3][1] if v[3][3][0] == old else v[3][3][0]
                        return add(st, ("top", "sub", tb, kind, target, amt), ("zero_pending", tb, key if key[0] != "ref" else key[1], ev.b))
                    if v[0] == "bin" and v[1] in ("Sub", "SubUnchecked") and v[2] == old:
                        amt = v[3]
                        strictly = any(g[0] == "cmp" and ((g[1] == "Gt" and g[2] == old and g[3] == amt and g[4]) or (g[1] == "Lt" and g[2] == amt and g[3] == old and g[4])
                                                          or (g[1] == "Le" and g[2] == old and g[3] == amt and not g[4]) or (g[1] == "Ge" and g[2] == amt and g[3] == old and not g[4])) for g in st.flags)
                        if not strictly:
                            eng.violate("SYM-4", "may-store-zero", "a link count is lowered in place without a preceding `count > amount` test: the entry can reach zero (and stay in the table) or wrap", ev.b, st)
                        return add(st, ("top", "sub", tb, kind, target, amt))
                    if v[0] == "bin" and v[1] in ("Add", "AddUnchecked") and (v[2] == old or v[3] == old):
                        amt = v[3] if v[2] == old else v[2]
                        k1 = key[1] if key[0] == "ref" else key
                        st = rem(st, lambda g: g[0] == "zero_insert" and g[1] == tb and _same_key(g[2], k1))
                        return add(st, ("top", "add", tb, kind, target, amt))
                    # `*count = count.saturating_sub(n)` followed by `if *count == 0 { remove }` (possibly in a guard's Drop)
                    if v[0] == "call" and v[2].startswith("core::num::") and v[2].endswith("::saturating_sub") and len(v[3]) == 2 and v[3][0] == old:
                        return add(st, ("top", "sub", tb, kind, target, v[3][1]), ("zero_pending", tb, key if key[0] != "ref" else key[1], ev.b))
                    # `match count.checked_sub(n) { Some(rest) if rest > 0 => *count = rest, _ => remove }`
                    v, nz_known = unwrap_nonzero(v)
                    cs = v
                    if cs[0] == "field" and cs[1][0] == "variant" and cs[1][2] == "Some":
                        cs = cs[1][1]
                    if cs is not v and cs[0] == "call" and cs[2].startswith("core::num::") and cs[2].endswith("::checked_sub") and len(cs[3]) == 2 and cs[3][0] == old:
                        amt = cs[3][1]
                        nonzero = any(h[0] == "cmp" and h[2] == v and is_const(h[3], 0) and ((h[1] == "Ne" and h[4]) or (h[1] == "Eq" and not h[4]) or (h[1] == "Gt" and h[4]) or (h[1] == "Le" and not h[4])) for h in st.flags) \
                            or mentions(v, lambda x: x[0] == "call" and x[2].startswith("core::num::NonZero")) or nz_known
                        if not nonzero:
                            eng.violate("SYM-4", "may-store-zero", "a link count is written back after subtraction without proof that it is non-zero (entries with count 0 keep a table non-empty forever)", ev.b, st)
                        return add(st, ("top", "sub", tb, kind, target, amt))
                    eng.violate("SYM-4", "link-count-overwritten", "a link count in the table of %s is overwritten with %s instead of being adjusted" % (show(tb), show(v)[:80]), ev.b, st)
                    return None
        for f in st.flags:
            if f[0] == "slot" and ev.place == mk_deref(f[1]):
                tb, key, init = f[2], f[3], f[4]
                kind, target = link_key(key, st)
                old = mk_deref(f[1])
                v = ev.value
                amt = None
                if v[0] == "bin" and v[1] in ("Add", "AddUnchecked"):
                    if v[2] == old:
                        amt = v[3]
                    elif v[3] == old:
                        amt = v[2]
                occupied = len(f) > 5 and f[5] == "occupied"
                if occupied and amt is None:
                    v2, nz_known = unwrap_nonzero(v)
                    cs = v2
                    if cs[0] == "field" and cs[1][0] == "variant" and cs[1][2] == "Some":
                        cs = cs[1][1]
                    if cs is not v2 and cs[0] == "call" and cs[2].startswith("core::num::") and cs[2].endswith("::checked_sub") and len(cs[3]) == 2 and cs[3][0] == old:
                        nonzero = nz_known or any(h[0] == "cmp" and h[2] == v2 and is_const(h[3], 0) and ((h[1] == "Ne" and h[4]) or (h[1] == "Eq" and not h[4]) or (h[1] == "Gt" and h[4]) or (h[1] == "Le" and not h[4])) for h in st.flags)
                        eng.obl("SYM-4", "sub:in-place", ev.b)
                        self.sites["sub"].add(ev.b)
                        if not nonzero:
                            eng.violate("SYM-4", "may-store-zero", "a link count is written back after subtraction without proof that it is non-zero (entries with count 0 keep a table non-empty forever)", ev.b, st)
                        st = rem(st, lambda g: g == f)
                        return add(st, ("top", "sub", tb, kind, target, cs[3][1]))
                self.sites["add"].add(ev.b)
                eng.obl("SYM-4", "add", ev.b)
                if amt is None or not is_const(amt, 1) or not (occupied or is_const(init, 0)):
                    eng.violate("SYM-4", "insert-not-plus-one", "recording a link changes its count by something other than +1 from a 0 start (%s)" % show(v)[:80], ev.b, st)
                st = rem(st, lambda g: g == f)
                return add(st, ("top", "add", tb, kind, target, amt))
        return None

    def on_return(self, eng, ev, st):
        if any(f[0] == "unwinding" for f in st.flags):
            return None
        for f in st.flags:
            if f[0] == "zero_insert":
                eng.violate("SYM-4", "insert-not-plus-one", "a link that was not recorded before is created with count 0 instead of 1 (and not counted afterwards)", f[3], st)
            if f[0] != "zero_pending":
                continue
            tb, key = f[1], f[2]
            nonzero = False
            for h in st.flags:
                if h[0] == "cmp" and is_const(h[3], 0):
                    g = _tbl_get_in(h[2])
                    if g is not None and table_of(g[3][0]) == tb and _same_key(g[3][1], key):
                        if (h[1] == "Eq" and not h[4]) or (h[1] == "Ne" and h[4]) or (h[1] == "Gt" and h[4]) or (h[1] == "Le" and not h[4]):
                            nonzero = True
            if not nonzero:
                eng.violate("SYM-4", "may-store-zero", "a link count is lowered with saturating arithmetic and can be left at zero: the entry is not removed on this path (entries with count 0 keep a table non-empty forever)", f[3], st)
        return None

    def _known_absent(self, st, tb, key):
        for f in st.flags:
            if f[0] == "cv" and len(f) >= 3 and f[2] is False:
                e = f[1]
                if e[0] == "call" and e[2].startswith("hashbrown::HashMap") and e[2].endswith("::contains_key") and len(e[3]) >= 2 and table_of(e[3][0]) == tb and _same_key(e[3][1], key):
                    return True
        return False

    @staticmethod
    def _difference_is_zero(st, cnt, n):
        """`NonZero::new(cnt - n)` is known to be None on this path."""
        for e, v in st.var:
            if v == "0" and e[0] == "call" and e[2].startswith("core::num::NonZero") and e[2].endswith("::new") and e[3]:
                d = e[3][0]
                if d[0] == "bin" and d[1] in ("Sub", "SubUnchecked") and d[2] == cnt and d[3] == n:
                    return True
        return False

    def _amount(self, st, tb, key):
        # the lookup of this key is known to have found nothing: the removal is vacuous
        for e, v in st.var:
            # (`get(k).copied()` / `.cloned()` is None exactly when the lookup is)
            while e[0] == "call" and e[2] in ("core::option::Option::<&T>::copied", "core::option::Option::<&T>::cloned", "core::option::Option::<&mut T>::copied") and e[3]:
                e = e[3][0]
            if v == "0" and e[0] == "call" and e[2].startswith("hashbrown::HashMap") and e[2].rsplit("::", 1)[1] in ("get", "get_mut") and len(e[3]) >= 2:
                if table_of(e[3][0]) == tb and _same_key(e[3][1], key):
                    return ABSENT
        for f in st.flags:
            if f[0] == "subamt":
                g = f[1]
                if table_of(g[3][0]) == tb and len(g[3]) > 1 and _same_key(g[3][1], key):
                    return f[2]
        # `match get_mut(k) { Some(c) if *c > n => *c -= n, Some(_) => remove(k), .. }`:
        # the entry is deleted on the path where count <= n, i.e. a saturating subtraction of n
        for f in st.flags:
            if f[0] == "cmp":
                op, x, y, truth = f[1], f[2], f[3], f[4]
                g = _tbl_get_in(x)
                gy = _tbl_get_in(y)
                if g is not None and table_of(g[3][0]) == tb and _same_key(g[3][1], key):
                    if (op == "Gt" and not truth) or (op == "Le" and truth) or (op == "Lt" and truth) or (op == "Ge" and not truth):
                        return y
                    # count >= n and `NonZero::new(count - n)` is None: count == n
                    if ((op == "Ge" and truth) or (op == "Lt" and not truth)) and self._difference_is_zero(st, x, y):
                        return y
                if gy is not None and table_of(gy[3][0]) == tb and _same_key(gy[3][1], key):
                    if (op == "Lt" and not truth) or (op == "Ge" and truth) or (op == "Gt" and truth) or (op == "Le" and not truth):
                        return x
                    if ((op == "Le" and truth) or (op == "Gt" and not truth)) and self._difference_is_zero(st, y, x):
                        return x
        return None


def unwrap_nonzero(v):
    """`NonZero::new(y)` -> Some(nz) -> `nz.get()` is y, known to be non-zero: (y, True); otherwise (v, False)."""
    if v[0] == "call" and v[2].startswith("core::num::NonZero") and v[2].endswith("::get") and v[3]:
        a = v[3][0]
        if a[0] == "field" and a[1][0] == "variant" and a[1][2] == "Some":
            inner = a[1][1]
            if inner[0] == "call" and inner[2].startswith("core::num::NonZero") and inner[2].endswith("::new") and inner[3]:
                return inner[3][0], True
    return v, False


def _same_key(a, b):
    if a[0] == "ref":
        a = a[1]
    if b[0] == "ref":
        b = b[1]
    return a == b


def _tbl_get_in(e):
    found = []

    def pred(x):
        if x[0] == "call" and x[2].startswith("hashbrown::HashMap") and x[2].rsplit("::", 1)[1] in ("get", "get_mut") and x[3] and table_of(x[3][0]) is not None:
            found.append(x)
            return True
        return False
    mentions(e, pred)
    return found[0] if found else None


class AdoptSchema:
    """SYM-1 / SYM-2 / EFF-3 on adopt_unchecked and unadopt."""
    id = "SYM"

    def __init__(self, which, boxes):
        self.which = which          # 'adopt' | 'unadopt'
        self.this = boxes[1][1]
        self.other = boxes[2][1]
        self.paths = 0
        self.cases = set()
        self.same_ops = set()     # record kinds touched when both arguments are known to name one object
        self.alias_ops = []       # ... when the handle objects differ but may name one object

    def finish(self, eng):
        eng.obl("SYM-5", self.which, 0)
        for ops, b, st in self.alias_ops:
            if self.same_ops and ops not in self.same_ops:
                eng.violate("SYM-5", "record-kind-depends-on-handle-identity",
                            "%s records a self-adoption (owner and target are one object) under %s when both arguments are the same handle object, but under %s when they are two handles to that object: an adoption recorded through one pair of handles is not found by unadopt through another pair, and a stale record stays behind" % (
                                self.which, self._kinds(next(iter(self.same_ops))), self._kinds(ops)), b, st)
                break

    @staticmethod
    def _kinds(ops):
        return "/".join(sorted(set(KIND_NAMES.get(o[2], "?") for o in ops))) or "nothing"

    def on_event(self, eng, ev, st):
        if ev.kind in ("set", "moveout", "free", "user", "handle_drop", "vec", "handle_new", "fill", "indirect"):
            eng.violate("EFF-3", "%s-touches-%s" % (self.which, ev.kind), "%s performs `%s`; adoption bookkeeping must only touch link tables" % (self.which, ev.kind), ev.b, st)
        return None

    def on_return(self, eng, ev, st):
        if any(f[0] == "unwinding" for f in st.flags):
            return None
        if getattr(eng.fn, "unexpanded", None):
            return None     # part of this entry point could not be analysed: no schema can be read off its paths
        self.paths += 1
        eng.obl("SYM-1" if self.which == "adopt" else "SYM-2", "return", ev.b)
        eng.obl("EFF-3", self.which, ev.b)
        ops = sorted(((f[1], f[2], f[3], f[4], f[5]) for f in st.flags if f[0] == "top"), key=repr)
        def rel(kind, x, y):
            return (kind, x, y) in st.rel or (kind, y, x) in st.rel
        same_ref = rel("eq", ("param", 1), ("param", 2))
        diff_ref = rel("ne", ("param", 1), ("param", 2))
        same_obj = rel("eq", self.this, self.other)
        diff_obj = rel("ne", self.this, self.other)
        # two different handle objects that name one allocation (`!ptr::eq(this, other) && Rc::ptr_eq(this, other)`) are
        # the distinct-handles case: both records land in the one table (SYM-5 compares this with the same-handle case)
        alias = same_obj and diff_ref and not same_ref
        same = same_ref or (same_obj and not alias)
        diff = (diff_ref or diff_obj) and not same
        # SYM-5: what is recorded for a pair of objects must not depend on which handle objects name them
        unified = sorted(((f[1], "x", f[3], "x") for f in st.flags if f[0] == "top"), key=repr)
        if same:
            self.same_ops.add(tuple(unified))
        elif diff_ref and not diff_obj:
            self.alias_ops.append((tuple(unified), ev.b, st))
        op = "add" if self.which == "adopt" else "sub"
        one = ("const", "1", None)
        if same:
            self.cases.add("same-handle")
            want = [(op, self.this, "2", self.other, one)]
        elif diff:
            self.cases.add("distinct-handles")
            want = [(op, self.this, "0", self.other, one), (op, self.other, "1", self.this, one)]
        else:
            eng.violate("SYM-1" if op == "add" else "SYM-2", "no-self-handle-test", "%s does not distinguish adoption through the same handle from adoption through another handle" % self.which, ev.b, st)
            return None
        want = sorted(want, key=repr)
        # a record that is absent needs no subtraction: any amount matches; with the same handle on
        # both sides `this` and `other` name the same object
        def canon(bx):
            return self.other if ((same or alias) and bx == self.this) else bx
        ops = sorted(((o[0], canon(o[1]), o[2], canon(o[3]), one if o[4] == ABSENT else o[4]) for o in ops), key=repr)
        want = sorted(((w[0], canon(w[1]), w[2], canon(w[3]), w[4]) for w in want), key=repr)
        if ops != want:
            def fmt(o):
                return "%s %s(%s) in table of %s by %s" % (o[0], KIND_NAMES.get(o[2], "?"), show(o[3]) if o[3] else "?", show(o[1]), show(o[4]) if o[4] else "?")
            eng.violate("SYM-1" if op == "add" else "SYM-2", "%s-records:%s" % (self.which, "same" if same else "distinct"),
                        "%s (%s handles) performs [%s]; the schema requires [%s]" % (self.which, "same" if same else "distinct", "; ".join(fmt(o) for o in ops), "; ".join(fmt(o) for o in want)), ev.b, st)
        return None


class Purge:
    """SYM-3: an object that dies with a non-empty table removes both record kinds naming it, by the
    recorded multiplicity, from every peer listed in its table before its contents are destroyed."""
    id = "SYM"

    def __init__(self, self_box, closures=None, entry_kind="rc_drop", entry_name="Rc::drop"):
        self.self_box = self_box
        self.closures = closures
        self.entry_kind = entry_kind
        self.entry_name = entry_name
        self.elems = set()

    def _same_as_self(self, c, peer):
        """+1 if `c` holds exactly when the peer is the dying object itself, -1 if exactly when it is not, else None."""
        sign = 1
        while c[0] == "un" and c[1] == "Not":
            sign, c = -sign, c[2]
        a = b = None
        if c[0] == "call" and c[2] == "core::ptr::eq" and len(c[3]) == 2:
            a, b = c[3]
        elif c[0] == "bin" and c[1] in ("Eq", "Ne"):
            a, b = c[2], c[3]
            if c[1] == "Ne":
                sign = -sign
        if a is None or {a, b} != {self.self_box, peer}:
            return None
        return sign

    def _skips_only_self(self, closure, seen, peer, name):
        """A `filter` / `filter_map` stage of the purge walk may only withhold the entry that names the dying object."""
        cl = self.closures.run(closure, params={2: seen if name == "filter_map" else ("ref", seen)})
        if cl is None or cl["effects"]:
            return False
        for pcs, ret in cl["paths"]:
            if name == "filter_map":
                if not (ret[0] == "agg" and ret[2] == "core::option::Option"):
                    return False
                dropped = ret[3] == "None"
            elif is_const(ret):
                dropped = ret[1] == "0"
            else:
                # the verdict is the value of an expression: it must be "is not the object itself"
                if self._same_as_self(ret, peer) != -1:
                    return False
                continue
            if dropped and not any(self._same_as_self(c, peer) == (1 if truth else -1) for c, truth in pcs):
                return False
        return True

    # ------------------------------------------------------------------------------------------------------
    # Two disciplines share the walk over an object's own link table:
    #  * purge  (the object goes away: Rc::drop on a dead object, try_unwrap, make_mut's steal): every record naming
    #    the object must be gone from every peer listed -- both kinds, by the entry's count (over-removal saturates);
    #  * mirror (the object stays: a bulk `unadopt_all`-like API): what is removed from a peer must be exactly the
    #    mirror image of the own entry that is given up (Forward(x):n <-> Backward(this):n in x's table), and no own
    #    record may be thrown away without its mirror.
    # In Rc::drop the purge is judged at once.  In an API entry the walk only records what it found; the verdict is
    # given where it is known which of the two applies: at a kill / discard of the whole table (purge), or at return
    # with the object still alive and its table in place (mirror).
    def _elem_exprs(self, eng, inner, E):
        """(link, count) expressions of a walk element, by reference (`(&Link, &usize)`) or by value."""
        try:
            from rules_trace import elem_shape
            dst = eng.fn.blocks[inner[1]]["term"]["dst"]
            shape = elem_shape(eng.fn.locals[dst["l"]]["ty"]["s"]) if not dst["p"] else None
        except Exception:
            shape = None
        if shape is not None and shape[1] is not None:
            return shape[0](E), shape[1](E)
        return mk_deref(mk_field(E, "0", "")), mk_deref(mk_field(E, "1", ""))

    def _pred_kinds(self, closure, negate=False):
        """Kinds of links for which a two-argument table predicate (`extract_if` / `retain`) holds; None if it looks
        at anything but the kind."""
        if self.closures is None:
            return None
        from rules_trace import _admitted_kinds, ALL_KINDS
        L = ("param", 2)
        cl = self.closures.run(closure, params={2: ("ref", ("sym", "link")), 3: ("ref", ("sym", "count"))})
        if cl is None or cl["effects"]:
            return None
        ks = _admitted_kinds(cl, mk_field(("sym", "link"), "kind", LINK))
        if ks is None:
            return None
        return frozenset(ALL_KINDS - ks) if negate else frozenset(ks)

    def on_variant(self, eng, st, inner, v, b):
        if inner[0] != "call" or inner[2] != "core::iter::Iterator::next":
            return None
        src = iter_source(inner[3][0])
        if src is None or src[0] != "table" or src[1] != self.self_box:
            return None
        # in Rc::drop the purge belongs to the path on which the object is dead; a handle-consuming API unlinks the
        # object while it still holds the sole strong reference
        # (or on which this handle is the last one: strong == 1 seen, the count about to be given up)
        if (self.entry_kind == "rc_drop" and not (st.strong(self.self_box) <= DEAD or st.strong(self.self_box) == frozenset("O"))) or st.empty(self.self_box) is True:
            return None
        api = self.entry_kind != "rc_drop"
        if v == "1":
            from rules_trace import adapted_elem, _strip_outer
            ae = adapted_elem(self.closures, inner) if self.closures is not None else None
            # the walk is described over the entry of the underlying table iterator, whatever the adaptors make of it
            # (when no adaptor changes the element, the interpreter names it by the adapted `next` call itself)
            E = ae[1] if ae is not None and ae[2] else mk_field(("variant", inner, "Some", 1), "0", "")
            if ae is not None and ae[2]:
                link, cnt = mk_deref(mk_field(E, "0", "")), mk_deref(mk_field(E, "1", ""))
            else:
                link, cnt = self._elem_exprs(eng, inner, E)
            peer = mk_field(link, "ptr", LINK)
            self.elems.add(b)
            eng.obl("SYM-3", "peer-entry", b)
            restricted = []
            for i, (name, cargs) in enumerate(src[-1]):
                ok = False
                if name in ("map", "copied", "cloned", "inspect", "by_ref", "peekable", "fuse", "collect"):
                    ok = ae is not None or name == "collect"   # one element out per element in
                elif name in ("filter", "filter_map") and cargs and self.closures is not None:
                    below = ("call", inner[1], "core::iter::Iterator::next", (_strip_outer(inner[3][0], i + 1),))
                    ae_b = adapted_elem(self.closures, below)
                    if ae_b is not None:
                        ok = self._skips_only_self(cargs[0], ae_b[0] if (ae is not None and ae[2]) else E, peer, name)
                if not ok:
                    restricted.append(name)
            if src[2] not in ("iter", "into_iter", "iter_mut", "keys", "values") and src[2] is not None:
                restricted.append(src[2])      # `extract_if(pred)` / `drain()` as the source: not the whole table as it stands
            for name in restricted:
                msg = "the purge of a dying object walks its link table through `%s`, which can skip peers other than the object itself: skipped peers keep records naming freed memory" % name
                if api:
                    st = add(st, ("purge_defect", "purge-iteration-restricted:%s" % name, msg, b))
                else:
                    eng.violate("SYM-3", "purge-iteration-restricted:%s" % name, msg, b, st)
            return add(st, ("purge_pending", E, b, link, cnt))
        if v == "0":
            if api and any(f[0] == "purge_defect" for f in st.flags):
                return add(st, ("walk_done", self.self_box))
            return add(st, ("purged", self.self_box), ("walk_done", self.self_box))
        return None

    def on_site_reexec(self, eng, st, site):
        for f in st.flags:
            if f[0] == "purge_pending" and mentions(f[1], lambda x: x[0] == "call" and x[1] == site):
                st = self._check(eng, st, f, site)
        return st

    def _check(self, eng, st, f, site):
        from rules_trace import known_kind
        E, link, cnt = f[1], f[3], f[4]
        peer = mk_field(link, "ptr", LINK)
        if ("eq", self.self_box, peer) in st.rel or ("eq", peer, self.self_box) in st.rel:
            return st  # the entry names the object itself
        api = self.entry_kind != "rc_drop"
        got = {}
        odd = []
        for g in st.flags:
            if g[0] == "top" and g[1] == "sub" and g[2] == peer and g[4] == self.self_box:
                if g[5] == cnt or g[5] == ABSENT:
                    got[g[3]] = g[5]
                else:
                    odd.append(g)
        defects = []
        for g in odd:
            defects.append(("purge-amount", "the dying object's records are purged from a peer by %s instead of the recorded multiplicity" % (show(g[5]) if g[5] else "an unknown amount")))
        for need in ("0", "1"):
            if need not in got:
                defects.append(("purge-incomplete:%s" % KIND_NAMES[need], "a dying object with adoption links does not remove its %s records from a peer named in its table; the peer keeps a record naming freed memory" % KIND_NAMES[need]))
        if not api:
            for key, msg in defects:
                eng.violate("SYM-3", key, msg, site, st)
            return st
        if defects:
            st = add(st, *[("purge_defect", key, msg, site) for key, msg in defects])
        # ---- the same element judged as a mirrored removal
        k = known_kind(st, mk_field(link, "kind", LINK))
        mirror = {"0": "1", "1": "0"}
        fl = []
        for g in odd:
            fl.append(("mirror_bad", "mirror-amount", "records naming %s are removed from a peer's table by %s, not by the multiplicity of the own record that is given up" % (show(self.self_box), show(g[5]) if g[5] else "an unknown amount"), site))
        for kind in got:
            if k is None or kind != mirror.get(k):
                fl.append(("mirror_bad", "mirror-kind:%s" % KIND_NAMES.get(kind, kind), "the %s record naming %s is removed from a peer's table while walking an own record of kind %s: it is not that record's mirror image (the peer loses a record whose counterpart stays)" % (
                    KIND_NAMES.get(kind, kind), show(self.self_box), KIND_NAMES.get(k, "unknown")), site))
        if k in mirror:
            fl.append(("mirrored", k) if mirror[k] in got else ("unmirrored", k))
        elif k is None:
            excluded = {g[2] for g in st.flags if g[0] == "notvar" and g[1] == mk_field(link, "kind", LINK)}
            for pk in ("0", "1"):
                if pk not in excluded and mirror[pk] not in got:
                    fl.append(("unmirrored", pk))
        # the own record given up entry by entry (`own.remove(link, n)`)
        for g in st.flags:
            if g[0] == "top" and g[1] == "sub" and g[2] == self.self_box and g[4] == peer and g[3] in mirror and mirror[g[3]] not in got:
                fl.append(("mirror_bad", "own-record-removed-without-mirror:%s" % KIND_NAMES[g[3]], "the own %s record for a peer is removed while the peer keeps its %s record naming %s" % (KIND_NAMES[g[3]], KIND_NAMES[mirror[g[3]]], show(self.self_box)), site))
        return add(st, *fl) if fl else st

    def _raise_purge_defects(self, eng, st, b):
        hit = False
        for f in st.flags:
            if f[0] == "purge_defect":
                hit = True
                eng.violate("SYM-3", f[1], f[2], f[3], st)
        return hit

    def on_discard(self, eng, ev, st):
        return self._discard(eng, ev, st)

    def _discard(self, eng, ev, st):
        """An object's own records are thrown away (table taken, replaced, cleared or moved out) outside
        Rc::drop: the mirror records in its peers' tables must be gone first."""
        b = ev.box
        if b is None or is_elem_box(b) or self.entry_kind == "rc_drop":
            return None
        from expr import is_fresh_alloc
        if is_fresh_alloc(b):
            return None      # the untouched table of an object under construction: nobody records that object yet
        eng.obl("SYM-3", "discard", ev.b)
        if st.empty(b) is not True and ("purged", b) not in st.flags:
            if not (b == self.self_box and self._raise_purge_defects(eng, st, ev.b)):
                eng.violate("SYM-3", "discard-without-purge:%s" % self.entry_name, "%s discards the adoption records of %s without first removing the mirror records from its peers' tables (and without seeing the table empty): peers keep links naming an object that no longer lists them" % (self.entry_name, show(b)), ev.b, st)
        return None

    def on_tbl(self, eng, ev, st):
        if ev.get("table") is None or self.entry_kind == "rc_drop":
            return None
        if ev.op in ("clear", "drain"):
            ev2 = Ev("discard", ev.b, ev.si, box=ev.table)
            return self._discard(eng, ev2, st)
        if ev.op in ("retain", "extract_if") and ev.table == self.self_box:
            # a bulk removal restricted by a predicate on the kind: judged as a mirrored removal at return
            ks = self._pred_kinds(ev.args[1], negate=(ev.op == "retain")) if len(ev.args) > 1 else None
            if ks is None:
                ev2 = Ev("discard", ev.b, ev.si, box=ev.table)
                return self._discard(eng, ev2, st)
            eng.obl("SYM-3", "bulk-removal", ev.b)
            return add(st, ("own_bulk", ks, ev.b))
        if ev.op in ("retain", "extract_if"):
            ev2 = Ev("discard", ev.b, ev.si, box=ev.table)
            return self._discard(eng, ev2, st)
        return None

    def on_set(self, eng, ev, st):
        # the last strong reference is taken outside Rc::drop: the purge is what applies (KILL-1 asks for it)
        if self.entry_kind != "rc_drop" and ev.field == "strong" and ev.cls == "dec" and ev.box == self.self_box and st.strong(ev.box) == frozenset("O"):
            if ("purged", self.self_box) not in st.flags:
                self._raise_purge_defects(eng, st, ev.b)
        return None

    def on_return(self, eng, ev, st):
        if self.entry_kind == "rc_drop" or any(f[0] == "unwinding" for f in st.flags):
            return None
        b = self.self_box
        given_up = ("killed", b) in st.flags or any(f[0] in ("dropped", "mv", "xfer", "held") and b in f and "links" in f for f in st.flags)
        if given_up:
            return None
        # the object is still there with its table: mirrored removal
        for f in st.flags:
            if f[0] == "mirror_bad":
                eng.violate("SYM-3", f[1], f[2], f[3], st)
        bulk = [f for f in st.flags if f[0] == "own_bulk"]
        for f in bulk:
            for k in sorted(f[1]):
                if k not in ("0", "1"):
                    continue
                walked = ("walk_done", b) in st.flags
                if ("unmirrored", k) in st.flags or not walked:
                    eng.violate("SYM-3", "records-removed-without-mirror:%s" % KIND_NAMES[k], "%s removes the %s records of %s from its own table without removing their mirror images from the peers' tables (the peers keep records whose counterpart is gone: the pairing the trace relies on is broken)" % (
                        self.entry_name, KIND_NAMES[k], show(b)), f[2], st)
        return None

    def on_moveout(self, eng, ev, st):
        if ev.get("field") == "links" and self.entry_kind != "rc_drop":
            return self._discard(eng, ev, st)
        if ev.box == self.self_box and st.strong(ev.box) <= DEAD and st.empty(ev.box) is not True and not is_elem_box(ev.box):
            # (the table was seen non-empty, or the path never looked at it at all)
            if (("g_nonempty",) in st.flags or ("g_empty",) not in st.flags) and ("purged", self.self_box) not in st.flags:
                eng.violate("SYM-3", "destroy-without-purge", "an object with adoption links is torn down without first purging itself from its peers' tables", ev.b, st)
        return None


class LoopbackSelect:
    """SYM-5 (sibling clause): adopt_unchecked files a self-adoption under a Loopback record exactly when its two `&Rc`
    arguments are the same handle object (`ptr::eq(this, other)`).  Any other function of two handles that
    writes the Loopback record of the pair must select it by the same test: selecting it by another one (e.g. by
    allocation identity, `Rc::ptr_eq`) looks for a record adopt never wrote for that pair of handles, and misses the
    Forward/Backward pair it did write."""
    id = "SYM"

    def __init__(self, name, boxes):
        self.name = name
        self.boxes = boxes

    def on_tbl(self, eng, ev, st):
        if ev.get("table") is None or len(ev.get("args") or ()) < 2 or ev.op not in ("remove", "insert", "get_mut", "entry", "remove_entry"):
            return None     # (read-only views may look at every kind of record)
        kind, target = link_key(ev.args[1], st)
        if kind != "2":
            return None
        eng.obl("SYM-5", "loopback-selection", ev.b)
        p1, p2 = ("param", 1), ("param", 2)
        same_handle = ("eq", p1, p2) in st.rel or ("eq", p2, p1) in st.rel
        if not same_handle:
            eng.violate("SYM-5", "loopback-selected-by-another-test:%s" % self.name, "%s touches the Loopback record of a pair of handles on a path that has not established `ptr::eq(this, other)` on the handles themselves, the test by which adopt_unchecked files a self-adoption under that record: for two handles to one object adopt writes a Forward/Backward pair, which this function then never finds" % self.name, ev.b, st)
        return None


class Getters:
    """TS-8: count getters."""
    id = "TS-8"

    def __init__(self, name, self_box):
        self.name = name
        self.self_box = self_box
        self.paths = 0

    def on_return(self, eng, ev, st):
        v = ev.value
        b = self.self_box
        self.paths += 1
        n = self.name
        eng.obl("TS-8", n, ev.b)
        if n in ("Weak::strong_count", "Weak::weak_count") and is_const(v, 0):
            return None
        g = counter_read(v)
        if n in ("Weak::strong_count", "Rc::strong_count"):
            if g is None or g[1] != b or g[2] != "strong":
                eng.violate("TS-8", "%s:not-the-count" % n, "%s returns %s, not the object's strong count" % (n, show(v)[:80]), ev.b, st)
            elif n.startswith("Weak") and ("U" in st.strong(b)):
                eng.violate("TS-8", "%s:dead-reports-nonzero" % n, "%s can report the internal uninit marker as a count for a destroyed object (strong-state %s)" % (n, "".join(sorted(st.strong(b)))), ev.b, st)
            return None
        # weak_count: weak - 1
        ok = v[0] == "bin" and v[1] in ("Sub", "SubUnchecked") and is_const(v[3], 1)
        g = counter_read(v[2]) if ok else None
        if g is None or g[1] != b or g[2] != "weak":
            eng.violate("TS-8", "%s:not-the-count" % n, "%s returns %s, not `weak - 1`" % (n, show(v)[:80]), ev.b, st)
        elif n.startswith("Weak") and (st.strong(b) & DEAD):
            eng.violate("TS-8", "%s:dead-reports-nonzero" % n, "%s can report a non-zero weak count for a destroyed object (strong-state %s)" % (n, "".join(sorted(st.strong(b)))), ev.b, st)
        return None


class ApiSpec:
    """API-1: guard <=> outcome and net effects per path of the handle-consuming API."""
    id = "API-1"

    def __init__(self, name, boxes, fn):
        self.name = name
        self.boxes = boxes
        self.fn = fn
        self.self_box = boxes[1][1] if 1 in boxes else None
        self.paths = 0

    def on_counter_test(self, eng, st, box, field, op, c, truth, b):
        if field == "weak":
            # whatever way the test is spelled (`== 1`, `< 2`, `!(> 1)`, weak_count() `< 1` ...): the values it admits.
            # A live strong handle implies weak >= 1 (the implicit weak), so {0, 1} means 1.
            from interp import classes_for
            cls = classes_for(op, c, truth)
            if "O" in cls and cls <= frozenset("ZO"):
                return add(st, ("w1", box))
            if "O" not in cls:
                return add(st, ("wne1", box))
        return None

    def on_set(self, eng, ev, st):
        if ev.field == "weak":
            return rem(st, lambda f: f[0] in ("w1", "wne1") and f[1] == ev.box)
        return None

    def on_abort(self, eng, ev, st):
        if self.name == "Weak::upgrade" and (st.strong(self.self_box) & DEAD):
            eng.violate("API-1", "upgrade-can-abort", "Weak::upgrade can abort the process instead of returning None for a destroyed object (strong-state %s)" % "".join(sorted(st.strong(self.self_box))), ev.b, st)
        return None

    def on_user(self, eng, ev, st):
        if self.name == "Rc::make_mut" and ev.get("what") == "call" and ev.get("method") == "clone":
            if "O" in st.strong(self.self_box) and st.strong(self.self_box) != ALL:
                pass
            if st.strong(self.self_box) == frozenset("O"):
                eng.violate("API-1", "make_mut:clones-when-unique", "Rc::make_mut clones the value although this is the only strong handle", ev.b, st)
        return None

    def on_moveout(self, eng, ev, st):
        if self.name == "Rc::make_mut" and ev.box == self.self_box:
            if ("w1", ev.box) in st.flags:
                eng.violate("API-1", "make_mut:steals-when-unique", "Rc::make_mut moves the value to a new allocation although no Weak handle exists", ev.b, st)
            if ev.get("field") == "value" and not (st.strong(ev.box) <= frozenset("O")):
                eng.violate("API-1", "make_mut:steals-when-shared", "Rc::make_mut moves the value out of its allocation although other strong handles may exist (strong-state %s): they keep pointing at a value that now has a second owner (std clones in this case)" % "".join(sorted(st.strong(ev.box))), ev.b, st)
        return None

    def on_return(self, eng, ev, st):
        if any(f[0] == "unwinding" for f in st.flags):
            return None
        self.paths += 1
        n, v, b = self.name, ev.value, self.self_box
        eng.obl("API-1", n, ev.b)
        flags = st.flags
        sets = [f for f in flags if f[0] in ("killed", "decw", "cnt_own_dec")]
        if n == "Rc::try_unwrap":
            if v[0] == "agg" and v[3] == "Ok":
                if ("killed", b) not in flags:
                    eng.violate("API-1", "try_unwrap:ok-without-lowering", "Rc::try_unwrap returns Ok without taking the strong count to zero", ev.b, st)
                # (the fake `Weak` of the std idiom, or the same spelled out: lower the weak count, free at zero)
                spelled_out = ("decw", b) in flags and (("freed", b) in flags or ("wnz", b) in flags)
                if not any(f[0] == "api_hdrop" and f[1] == "Weak" and f[2] == b for f in flags) and not spelled_out:
                    eng.violate("API-1", "try_unwrap:implicit-weak-kept", "Rc::try_unwrap returns Ok without releasing the implicit weak reference (the allocation leaks)", ev.b, st)
            elif v[0] == "agg" and v[3] == "Err":
                if "O" in st.strong(b):
                    eng.violate("API-1", "try_unwrap:refuses-sole-owner", "Rc::try_unwrap returns Err although the strong count may be exactly 1", ev.b, st)
                if dict(v[5]).get("0") != ("param", 1):
                    eng.violate("API-1", "try_unwrap:err-not-same-handle", "Rc::try_unwrap's Err does not return the handle it was given", ev.b, st)
                if sets or any(f[0] in ("mv", "xfer") for f in flags):
                    eng.violate("API-1", "try_unwrap:err-has-effects", "Rc::try_unwrap changes counts or moves the value on the Err path", ev.b, st)
            return None
        if n == "Rc::get_mut":
            some = v[0] == "agg" and v[3] == "Some"
            uniq = st.strong(b) == frozenset("O") and ("w1", b) in flags
            if some and not uniq:
                eng.violate("API-1", "get_mut:some-when-shared", "Rc::get_mut hands out &mut T although another strong or Weak handle may exist", ev.b, st)
            if not some and uniq:
                eng.violate("API-1", "get_mut:none-when-unique", "Rc::get_mut returns None although the handle is unique", ev.b, st)
            if some and box_part(dict(v[5]).get("0", ("unk", ""))) != (b, "value"):
                eng.violate("API-1", "get_mut:wrong-target", "Rc::get_mut does not return a reference to this object's value", ev.b, st)
            return None
        if n == "Rc::make_mut":
            for f in flags:
                if f[0] == "killed" and ("decw", f[1]) not in flags and not any(g[0] == "api_hdrop" and g[1] == "Weak" and g[2] == f[1] for g in flags):
                    eng.violate("API-1", "make_mut:implicit-weak-kept", "Rc::make_mut takes the last strong reference of the old allocation without releasing its implicit weak (the allocation is never freed)", ev.b, st)
            return None
        if n == "Weak::upgrade":
            if v[0] == "agg" and v[3] == "None":
                dang = any(f[0] == "dangling" for f in flags)
                if not dang and not (st.strong(b) <= DEAD):
                    eng.violate("API-1", "upgrade:none-for-live", "Weak::upgrade returns None although the object may be alive (strong-state %s)" % "".join(sorted(st.strong(b))), ev.b, st)
            elif v[0] == "agg" and v[3] == "Some":
                h = dict(v[5]).get("0")
                if not (h and h[0] == "agg" and dict(h[5]).get("ptr") == b):
                    eng.violate("API-1", "upgrade:other-object", "Weak::upgrade returns a handle to a different allocation", ev.b, st)
            return None
        if n == "Rc::decrement_strong_count":
            if not any(f[0] == "api_hdrop" and f[1] == "Rc" for f in flags):
                eng.violate("API-1", "decrement_strong_count:no-drop", "Rc::decrement_strong_count does not drop a strong handle (the count is not lowered)", ev.b, st)
            return None
        if n == "Rc::increment_strong_count":
            if not any(f[0] == "api_inc" for f in flags):
                eng.violate("API-1", "increment_strong_count:no-increment", "Rc::increment_strong_count does not raise the strong count", ev.b, st)
            if any(f[0] == "api_hdrop" for f in flags):
                eng.violate("API-1", "increment_strong_count:drops", "Rc::increment_strong_count drops a handle (net effect is not +1)", ev.b, st)
            return None
        if n in ("Rc::as_ptr", "Rc::into_raw", "Weak::as_ptr", "Weak::into_raw"):
            bp = box_part(v)
            dang = any(f[0] == "dangling" for f in flags)
            if not (bp == (b, "value") or (n.startswith("Weak") and dang)):
                eng.violate("API-1", "%s:not-value-address" % n, "%s does not return the address of this object's value" % n, ev.b, st)
            if n.endswith("into_raw") and not any(f[0] == "forgot" for f in flags):
                eng.violate("API-1", "%s:handle-not-forgotten" % n, "%s drops its handle (the count it is supposed to transfer is released)" % n, ev.b, st)
            return None
        if n in ("Rc::ptr_eq", "Weak::ptr_eq"):
            b2 = self.boxes[2][1] if 2 in self.boxes else None
            ok = v[0] == "bin" and v[1] == "Eq" and {v[2], v[3]} == {b, b2}

            def unref(x):
                return x[1] if x[0] == "ref" else x
            if not ok and v[0] == "call" and len(v[3]) == 2 and v[2] in ("core::ptr::eq", "core::ptr::addr_eq", "core::cmp::PartialEq::eq") or (v[0] == "call" and len(v[3]) == 2 and v[2].endswith("::eq") and v[2].startswith("core::ptr::")):
                # ptr::eq(a, b), or `==` on the NonNull / raw pointers themselves (address equality of thin pointers)
                ok = {unref(v[3][0]), unref(v[3][1])} == {b, b2}
            if not ok:
                eng.violate("API-1", "%s:not-pointer-equality" % n, "%s is not equality of the two allocation addresses (%s)" % (n, show(v)[:80]), ev.b, st)
            return None
        if n == "Rc::downgrade":
            if not (v[0] == "agg" and v[2] == WEAK and dict(v[5]).get("ptr") == b):
                eng.violate("API-1", "downgrade:other-object", "Rc::downgrade returns a Weak to a different allocation", ev.b, st)
            return None
        return None

    def on_handle_drop(self, eng, ev, st):
        return add(st, ("api_hdrop", ev.handle, ev.box))

    def on_handle_new(self, eng, ev, st):
        # from_raw must undo exactly what as_ptr/into_raw do: step back by the offset of the
        # `value` field inside RcBox<T> (for this T, including its alignment padding)
        if self.name in ("Rc::from_raw", "Weak::from_raw") and ev.ptr is not None:
            eng.obl("API-1", self.name + ":offset", ev.b)
            if any(f[0] == "dangling" for f in st.flags):
                return None
            if not steps_back_by_value_offset(ev.ptr, eng.fn.facts):
                eng.violate("API-1", "%s:not-inverse-of-as_ptr" % self.name, "%s does not recover the allocation by stepping back exactly the offset of RcBox<T>::value (it computes %s); for payloads whose alignment changes the padding the handle points into the wrong place" % (self.name, show(ev.ptr)[:160]), ev.b, st)
        return None

    def on_event(self, eng, ev, st):
        if ev.kind == "set" and ev.field == "strong" and ev.cls == "inc":
            return add(st, ("api_inc",))
        if ev.kind == "alloc" and self.name in ("Weak::new", "Rc::as_ptr", "Rc::into_raw", "Weak::as_ptr", "Rc::ptr_eq", "Rc::get_mut", "Weak::upgrade", "Rc::downgrade"):
            eng.violate("API-1", "%s:allocates" % self.name, "%s allocates" % self.name, ev.b, st)
        if ev.kind == "borrow" and ev.get("box") is not None and self.name in ("Weak::new", "Rc::as_ptr", "Weak::as_ptr", "Rc::ptr_eq", "Weak::upgrade", "Rc::downgrade"):
            eng.violate("API-1", "%s:borrows-a-link-table" % self.name, "%s looks into a link table: a counter operation became bookkeeping work" % self.name, ev.b, st)
        return None


FWD_TRAITS = {
    "core::cmp::PartialEq": ("eq", "ne"),
    "core::cmp::PartialOrd": ("partial_cmp", "lt", "le", "gt", "ge"),
    "core::cmp::Ord": ("cmp",),
    "core::hash::Hash": ("hash",),
    "core::fmt::Display": ("fmt",),
    "core::fmt::Debug": ("fmt",),
}
REF_TRAITS = {"core::borrow::Borrow": "borrow", "core::convert::AsRef": "as_ref", "core::ops::Deref": "deref"}


class Forward:
    """FWD-1: trait impls on Rc<T> forward to the same method of the same trait on the value."""
    id = "FWD-1"

    def __init__(self, fn, boxes):
        self.fn = fn
        self.boxes = boxes
        self.trait = fn.f.get("impl_trait")
        self.calls = 0
        self.paths = 0

    def on_event(self, eng, ev, st):
        if ev.kind in ("set", "tbl", "borrow", "moveout", "free", "alloc", "handle_new", "handle_drop"):
            eng.violate("FWD-1", "%s:side-effect" % short(self.fn.path), "%s touches counters, tables or memory (%s)" % (short(self.fn.path), ev.kind), ev.b, st)
        return None

    def on_user(self, eng, ev, st):
        if ev.get("what") != "call":
            return None
        self.calls += 1
        name = short(self.fn.path)
        want_methods = FWD_TRAITS.get(self.trait)
        if want_methods is None:
            eng.violate("FWD-1", "%s:unexpected-user-call" % name, "%s calls user code (%s::%s)" % (name, ev.trait, ev.method), ev.b, st)
            return None
        if ev.trait != self.trait or ev.method != self.fn.name:
            eng.violate("FWD-1", "%s:forwards-to-other-method" % name, "%s forwards to %s::%s instead of %s::%s on the value" % (name, ev.trait, ev.method, self.trait, self.fn.name), ev.b, st)
        args = ev.args
        b1 = self.boxes[1][1]
        if not args or box_part(args[0]) != (b1, "value"):
            eng.violate("FWD-1", "%s:receiver" % name, "%s does not pass this object's value as the receiver" % name, ev.b, st)
        if 2 in self.boxes:
            b2 = self.boxes[2][1]
            if len(args) < 2 or box_part(args[1]) != (b2, "value"):
                eng.violate("FWD-1", "%s:second-operand" % name, "%s does not pass the other object's value as the second operand (operands swapped or replaced)" % name, ev.b, st)
        else:
            for i, a in enumerate(args[1:], start=2):
                if a != ("param", i):
                    eng.violate("FWD-1", "%s:argument" % name, "%s does not pass argument %d through" % (name, i), ev.b, st)
        return add(st, ("fwd_res", ev.res))

    def on_return(self, eng, ev, st):
        if any(f[0] == "unwinding" for f in st.flags):
            return None
        self.paths += 1
        name = short(self.fn.path)
        eng.obl("FWD-1", name, ev.b)
        v = ev.value
        if self.trait in FWD_TRAITS:
            res = [f[1] for f in st.flags if f[0] == "fwd_res"]
            if len(res) != 1:
                eng.violate("FWD-1", "%s:call-count" % name, "%s makes %d calls into the value's implementation on one path (expected exactly one)" % (name, len(res)), ev.b, st)
            elif v != res[0] and not (v[0] == "const" and v[2] == "()"):
                eng.violate("FWD-1", "%s:result-modified" % name, "%s does not return the value's result unchanged (%s)" % (name, show(v)[:80]), ev.b, st)
        elif self.trait in REF_TRAITS:
            if box_part(v) != (self.boxes[1][1], "value"):
                eng.violate("FWD-1", "%s:not-the-value" % name, "%s does not return a reference to this object's value" % name, ev.b, st)
        return None


def _strip_int_casts(e):
    while e[0] == "cast" and e[1] in ("IntToInt",):
        e = e[2]
    return e


def const_is_value_offset(d, facts, depth=0):
    """A constant of the crate whose body is `offset_of!(RcBox<T>, value)` (possibly through integer casts and nested
    inline constants: `const { offset_of!(RcBox<T>, value) as isize }`)."""
    import re
    if facts is None or d[0] != "const" or d[1] is not None or not d[2] or depth > 3:
        return False
    name = re.sub(r"::<[^>]*>", "", d[2])
    for path, c in facts.consts.items():
        if path.endswith(name) or path.endswith("::" + name):
            if len(c["blocks"]) == 1 and c["blocks"][0]["term"]["k"] == "return" and len(c["blocks"][0]["stmts"]) == 1:
                s0 = c["blocks"][0]["stmts"][0]
                rv = s0.get("rv") or {}
                op = rv.get("op") if rv.get("k") in ("use", "cast") and (rv.get("k") == "use" or rv.get("ck") == "IntToInt") else None
                if s0["k"] == "assign" and s0["dst"] == {"l": 0, "p": []} and isinstance(op, dict) and op.get("k") == "const" and "int" not in op and op.get("desc"):
                    if const_is_value_offset(("const", None, op["desc"]), facts, depth + 1):
                        return True
            for blk in c["blocks"]:
                t = blk["term"]
                if t["k"] == "call" and t["callee"] and t["callee"]["def"] == "core::intrinsics::offset_of":
                    targs = t["callee"].get("targs") or [{}]
                    if targs[0].get("adt") == RCBOX and len(t["args"]) >= 2 and "int" in t["args"][1]:
                        idx = int(t["args"][1]["int"])
                        fields = facts.adts.get(RCBOX, {}).get("fields", [])
                        if idx < len(fields) and fields[idx]["name"] == "value":
                            return True
    return False


def is_value_offset(d, facts=None):
    """`addr_of!((*base).value) as usize - base as usize` for some RcBox place `base`, or offset_of!(RcBox<T>, value)."""
    d = _strip_int_casts(d)
    if const_is_value_offset(d, facts):
        return True
    if d[0] == "unk" and "OffsetOf" in str(d[1]):
        return True
    if d[0] != "bin" or d[1] not in ("Sub", "SubUnchecked"):
        return False
    a, b = _strip_int_casts(d[2]), _strip_int_casts(d[3])
    if a[0] != "cast" or a[1] != "PtrToInt":
        return False
    bp = box_part(a[2])
    if bp is None or bp[1] != "value":
        return False
    q = bp[0]
    if q == ("cast", "IntToPtr", b):
        return True
    if b[0] == "cast" and b[1] == "PtrToInt" and b[2] == q:
        return True
    return False


def steps_back_by_value_offset(ptr, facts=None):
    found = []

    def pred(x):
        if x[0] == "call" and x[2].rsplit("::", 1)[-1] in ("offset", "byte_offset", "wrapping_offset") and len(x[3]) == 2:
            n = x[3][1]
            if n[0] == "un" and n[1] == "Neg" and is_value_offset(n[2], facts):
                found.append(True)
            return True
        if x[0] == "call" and x[2].rsplit("::", 1)[-1] in ("sub", "byte_sub", "wrapping_sub", "wrapping_byte_sub") and len(x[3]) == 2:
            if is_value_offset(x[3][1], facts):
                found.append(True)
            return True
        return False
    mentions(ptr, pred)
    return bool(found)
