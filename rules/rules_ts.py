"""Typestate rules over the abstract interpreter's events.

Rule ids follow DESIGN.md section 3.  Each rule object keeps its per-path
state in St.flags (tuples whose first element is the flag name) so that it is
part of the explored abstract state.
"""
from interp import DEAD, LIVE, ALL, Ev, HANDLE_ADTS, counter_read
from expr import is_pop_call, show, mentions, box_part, table_of, is_const, mk_field, mk_deref


def sub(e, r):
    """True iff expression r occurs inside e."""
    return mentions(e, lambda x: x == r)


def flagset(st, name):
    return [f for f in st.flags if f[0] == name]


def add(st, *fl):
    return st.replace(flags=st.flags | set(fl))


def rem(st, pred):
    return st.replace(flags=frozenset(f for f in st.flags if not pred(f)))


def handle_boxes(fn):
    """Box pointer expressions of the handle-typed parameters of an entry point."""
    out = {}
    for i in range(1, fn.argc + 1):
        ty = fn.locals[i]["ty"]
        adt = ty.get("adt")
        if adt in HANDLE_ADTS:
            base = ("param", i)
            for _ in range(ty.get("peel", 0)):
                base = mk_deref(base)
            out[i] = (HANDLE_ADTS[adt], mk_field(base, "ptr", adt))
    return out


def is_elem_box(box):
    """Box named by an element obtained from an iterator / container (not a parameter)."""
    return mentions(box, lambda x: x[0] == "call" and (x[2] == "core::iter::Iterator::next" or is_pop_call(x[2])))


def touches(ev):
    """Boxes whose memory an event reads or writes."""
    k = ev.kind
    if k in ("get", "set", "moveout", "fill"):
        return [ev.box]
    if k == "borrow" and ev.box is not None:
        return [ev.box]
    if k in ("tbl", "tblwrite"):
        b = ev.get("table") if k == "tbl" else ev.get("box")
        return [b] if b is not None else []
    return []


def short_entry(name):
    n = name.replace("cactusref::", "")
    if "::<T>::" in n:
        n = n.replace("rc::Rc::<T>::", "Rc::").replace("rc::Weak::<T>::", "Weak::")
    return n.rsplit("::", 2)[-2].split("<")[0] + "::" + n.rsplit("::", 1)[-1] if "::" in n else n


class Teardown:
    """TS-1..TS-5, UNW-1: contents are moved out only of dead boxes, at most once,
    destroyed before the implicit weak is released, released once, freed only at
    weak == 0, never touched afterwards; also on unwinding continuations."""
    id = "TS"

    def __init__(self, entry_kind, self_box=None):
        self.entry_kind = entry_kind      # 'rc_drop' | 'weak_drop' | 'api'
        self.self_box = self_box
        self.sites = {"moveout": set(), "release": set(), "free": set(), "destroy": set()}

    # -- use after free, for every event that touches a box
    SETTLE = ("user", "indirect", "handle_drop", "return", "resume", "free", "abort", "panic")

    def on_event(self, eng, ev, st):
        for b in touches(ev):
            if ("freed", b) in st.flags and ev.kind != "free":
                eng.violate("TS-4", "use-after-free:%s" % ev.kind, "allocation %s is accessed (%s) after it was freed on this path" % (show(b), ev.kind), ev.b, st)
        if ev.kind in self.SETTLE:
            pend = [f for f in st.flags if f[0] == "give_pending"]
            if pend:
                for f in pend:
                    self._given_up(eng, Ev("set", f[2], None, box=f[1]), st, f[1])
                return rem(st, lambda f: f[0] == "give_pending")
        return None

    def on_moveout(self, eng, ev, st):
        b, f = ev.box, ev.field
        self.sites["moveout"].add((ev.b, f))
        eng.obl("TS-1", "moveout:%s" % f, ev.b)
        for fl in st.flags:
            if (fl[0] in ("mv", "xfer") and fl[1] == b and fl[2] == f) or (fl[0] == "held" and fl[2] == b and fl[3] == f) or (fl[0] == "dropped" and fl[1] == b and fl[2] == f):
                eng.violate("TS-1", "double-moveout:%s" % f, "field `%s` of %s is moved out a second time on one path" % (f, show(b)), ev.b, st)
                return None
        if f == "links" and st.empty(b) is True:
            st = add(st, ("links_empty_at_move", ev.res))
        put = ev.get("put")
        if f == "links" and put is not None:
            # a table taken out of one object and installed in another: it must have been seen empty when it was taken,
            # or the receiving object starts its life with records that none of the peers named in them mirrors
            for fl in st.flags:
                if fl[0] == "mv" and fl[2] == "links" and fl[1] != b and (put == fl[3] or sub(put, fl[3])) and ("links_empty_at_move", fl[3]) not in st.flags:
                    eng.violate("SYM-3", "records-carried-into-another-object", "the link table taken out of %s is installed in %s without having been seen empty: %s starts with adoption records that the peers named in them do not mirror (and that name the given-up allocation's peers)" % (
                        show(fl[1]), show(b), show(b)), ev.b, st)
        ss = st.strong(b)
        from expr import is_fresh_alloc
        if ss <= DEAD:
            pass
        elif is_fresh_alloc(b) and ev.how == "replace":
            pass      # an object under construction (allocated here, not yet handed out): its fields are being set up
        elif ss == frozenset("O"):
            st = add(st, ("must_dec", b))
        else:
            eng.violate("TS-1", "moveout-not-dead:%s" % f, "field `%s` of %s is moved out while the object is not known dead (strong-state %s)" % (f, show(b), "".join(sorted(ss))), ev.b, st)
        if f == "links":
            for (g, gbox, gmut) in st.guards:
                if gbox is None or gbox == b or not st.distinct(gbox, b):
                    eng.violate("TS-1", "table-moved-while-borrowed", "the link table of %s is moved out while a guard on it is still live; the guard's release will write into moved-out (soon freed) memory" % show(b), ev.b, st)
        if any(fl[0] == "unwinding" for fl in st.flags):
            eng.violate("UNW-1", "moveout-in-cleanup:%s" % f, "an unwinding continuation moves `%s` out of %s" % (f, show(b)), ev.b, st)
        if ev.how == "copy" and ev.get("dst") is not None and box_part(ev.dst) is not None:
            return add(st, ("xfer", b, f, box_part(ev.dst)[0]))
        if ev.how == "copy" and ev.get("dst") is not None:
            # bytes copied into a local (e.g. a MaybeUninit<T> temporary): the contents now live there
            return add(st, ("mv", b, f, mk_deref(ev.dst)))
        return add(st, ("mv", b, f, ev.res))

    def _consume(self, eng, ev, st, v, user):
        new = set()
        gone = set()
        for fl in st.flags:
            hit = None
            if fl[0] == "mv" and (sub(v, fl[3]) or v == fl[3]):
                hit = (fl[1], fl[2])
            elif fl[0] == "held" and (sub(v, fl[1]) or v == fl[1]):
                hit = (fl[2], fl[3])
            if hit is not None:
                gone.add(fl)
                new.add(("dropped", hit[0], hit[1]))
                self.sites["destroy"].add((ev.b, hit[1]))
                eng.obl("TS-2", "destroy:%s" % hit[1], ev.b)
                eng.obl("TS-5", "consumed:%s" % hit[1], ev.b)
                if user and not (st.strong(hit[0]) <= DEAD):
                    eng.violate("TS-2", "destructor-before-dead", "the destructor of the value moved out of %s runs while that object is not marked dead (strong-state %s)" % (show(hit[0]), "".join(sorted(st.strong(hit[0])))), ev.b, st)
        if gone:
            return st.replace(flags=(st.flags - gone) | new)
        return None

    def on_user(self, eng, ev, st):
        if ev.what == "drop":
            return self._consume(eng, ev, st, ev.value, True)
        return None

    def on_libdrop(self, eng, ev, st):
        return self._consume(eng, ev, st, ev.value, False)

    def on_vec(self, eng, ev, st):
        if ev.op in ("push", "insert", "extend", "push_within_capacity") and len(ev.args) >= 2:
            cont = mk_deref(ev.args[0])
            pushed = ev.args[-1]
            new = set()
            gone = set()
            for fl in st.flags:
                if fl[0] == "mv" and sub(pushed, fl[3]):
                    gone.add(fl)
                    new.add(("held", cont, fl[1], fl[2]))
            if gone:
                return st.replace(flags=(st.flags - gone) | new)
        return None

    def on_fill(self, eng, ev, st):
        st = add(st, ("filled", ev.box, ev.field))
        # contents read out of one box and written into another: transferred, not pending any more
        src = ev.get("src")
        if src is not None:
            hit = [fl for fl in st.flags if fl[0] == "mv" and (src == fl[3] or sub(src, fl[3]))]
            if hit:
                st = rem(st, lambda g: g in hit)
                st = add(st, *[("xfer", fl[1], fl[2], ev.box) for fl in hit])
        return st

    def _given_up(self, eng, ev, st, b):
        """A handle-consuming API took the last strong reference of `b` and now releases its implicit weak: the
        allocation may be freed here, so the value must have been handed on / destroyed and the link table dropped."""
        if self.entry_kind in ("rc_drop", "weak_drop") or is_elem_box(b) or not (st.strong(b) <= DEAD) or ("killed", b) not in st.flags:
            return
        eng.obl("GIVE-1", "given-up", ev.b)
        for f in ("value", "links"):
            if not any(fl[0] in ("dropped", "xfer") and fl[1] == b and fl[2] == f for fl in st.flags) and not any(fl[0] in ("mv", "held") and b in fl and f in fl for fl in st.flags):
                eng.violate("GIVE-1", "given-up-without-destroy:%s:%s" % (f, short_entry(eng.name)), "%s takes the last strong reference of %s and releases its implicit weak, but the object's `%s` is never dropped: %s" % (
                    short_entry(eng.name), show(b), f, "the table's storage is lost even when every adoption was undone before the call" if f == "links" else "the value leaks"), ev.b, st)

    def _slot_check(self, eng, ev, st):
        """UNW-1 / TS-1: a handle that lives in the caller (`this: &mut Rc<T>`) and was dropped in place must have been
        replaced by the time control goes back to the caller, on the normal path and on every unwinding one: otherwise
        the caller is left holding a handle whose share was already given back."""
        for fl in st.flags:
            if fl[0] == "slot_dropped":
                unw = any(f[0] == "unwinding" for f in st.flags)
                eng.violate("UNW-1" if unw else "TS-1", "caller-handle-left-dropped", "the handle the caller passed by `&mut` (%s) is dropped in place and control %s without a new handle having been written there: the caller keeps a handle whose reference was already released (use after free / double drop when it is used or dropped)" % (
                    show(fl[1]), "unwinds back to the caller (a destructor run by that drop panicked)" if unw else "returns"), fl[2], st)

    def on_resume(self, eng, ev, st):
        self._slot_check(eng, ev, st)
        return None

    def on_store(self, eng, ev, st):
        if any(fl[0] == "slot_dropped" and fl[1] == ev.place for fl in st.flags):
            return rem(st, lambda fl: fl[0] == "slot_dropped" and fl[1] == ev.place)
        if ev.get("how") == "replace":
            return add(st, ("slot_refilled", ev.place))     # the old handle was taken out as a new one went in
        return None

    def on_handle_drop(self, eng, ev, st):
        v = ev.get("value")
        if v is not None and ("slot_refilled", v) in st.flags:
            # the handle taken out of the caller's slot by `mem::replace`: the slot already holds its successor
            eng.obl("UNW-1", "caller-handle-dropped-in-place", ev.b)
            st = rem(st, lambda fl: fl == ("slot_refilled", v))
            r = self._on_handle_drop(eng, ev, st)
            return r if r is not None else st
        if v is not None and v[0] == "deref" and v[1][0] == "param" and self.entry_kind not in ("rc_drop", "weak_drop"):
            eng.obl("UNW-1", "caller-handle-dropped-in-place", ev.b)
            st = add(st, ("slot_dropped", v, ev.b))
            r = self._on_handle_drop(eng, ev, st)
            return r if r is not None else st
        return self._on_handle_drop(eng, ev, st)

    def _on_handle_drop(self, eng, ev, st):
        if ev.handle == "Weak" and ev.box is not None:
            self._given_up(eng, ev, st, ev.box)
        # TS-6: a strong handle whose drop would destroy the value may only exist (be dropped) for a box
        # whose value has been initialised; while a fresh allocation is being filled it must be held
        # as Rc<MaybeUninit<T>> (whose drop does not touch the value)
        if ev.handle != "Rc" or ev.box is None:
            return None
        from interp import alloc_root
        ty = ev.get("ty") or ""
        inner = ty.split("Rc<", 1)[1] if "Rc<" in ty else ""
        if inner.startswith("core::mem::MaybeUninit<") or inner.startswith("std::mem::MaybeUninit<"):
            return None
        if alloc_root(ev.box) is None:
            return None
        eng.obl("TS-6", "drop-of-handle-to-fresh-box", ev.b)
        if ("filled", ev.box, "value") in st.flags:
            return None
        if mentions(ev.box, lambda x: x[0] == "agg" and x[2] == "cactusref::rc::RcBox"):
            return None   # Box::new(RcBox { value, .. }): initialised at allocation
        eng.violate("TS-6", "handle-to-uninitialised-value-dropped", "a strong handle (%s) to a freshly allocated object is dropped%s before the object's value has been written: Rc::drop destroys a value that was never constructed" % (
            ty, " on an unwinding path" if any(f[0] == "unwinding" for f in st.flags) else ""), ev.b, st)
        return None

    def on_forget(self, eng, ev, st):
        for fl in st.flags:
            if (fl[0] == "mv" and (sub(ev.value, fl[3]) or ev.value == fl[3])) or (fl[0] == "held" and (sub(ev.value, fl[1]) or ev.value == fl[1])):
                b, f = (fl[1], fl[2]) if fl[0] == "mv" else (fl[2], fl[3])
                eng.violate("TS-5", "forgotten:%s" % f, "contents (`%s`) moved out of %s are forgotten instead of destroyed" % (f, show(b)), ev.b, st)
        return None

    def on_set(self, eng, ev, st):
        b = ev.box
        unwinding = any(fl[0] == "unwinding" for fl in st.flags)
        if ev.field == "strong":
            if ev.cls == "dec" and ("must_dec", b) in st.flags:
                st = rem(st, lambda f: f == ("must_dec", b))
                st = add(st, ("killed", b))
            if unwinding and any(fl[0] in ("mv", "dropped", "held", "xfer") and b in fl for fl in st.flags):
                eng.violate("UNW-1", "strong-write-in-cleanup", "an unwinding continuation writes the strong count of %s whose teardown was interrupted" % show(b), ev.b, st)
            # the last handle going away may mark its object uninit straight from strong == 1 (one -> uninit without the stop
            # at zero): after it there are no strong handles, which is what dead means
            last_handle = self.entry_kind == "rc_drop" and b == self.self_box and st.strong(b) == frozenset("O")
            if ev.cls == "max" and not (st.strong(b) <= DEAD) and not last_handle:
                eng.violate("TS-1", "uninit-mark-on-live", "%s is marked uninit while not known dead (strong-state %s)" % (show(b), "".join(sorted(st.strong(b)))), ev.b, st)
            return st
        # weak counter
        st = rem(st, lambda f: f[0] in ("wz", "wnz") and (f[1] == b or not st.distinct(f[1], b)))
        if ev.cls == "dec":
            self.sites["release"].add(ev.b)
            eng.obl("TS-3", "release", ev.b)
            if unwinding:
                eng.obl("UNW-1", "release-in-cleanup", ev.b)
            if ("decw", b) in st.flags:
                eng.violate("TS-3", "double-release", "the weak count of %s is lowered twice on one path%s" % (show(b), " (unwinding)" if unwinding else ""), ev.b, st)
            dead = st.strong(b) <= DEAD
            if self.entry_kind not in ("rc_drop", "weak_drop") and not is_elem_box(b):
                # a plain decrement frees nothing by itself: what the given-up allocation still contains matters where
                # control can leave the library next (GIVE-1, settled in on_event)
                st = add(st, ("give_pending", b, ev.b))
            if dead:
                for fl in st.flags:
                    if (fl[0] == "mv" and fl[1] == b) or (fl[0] == "held" and fl[2] == b):
                        f = fl[2] if fl[0] == "mv" else fl[3]
                        if f == "value" and self.entry_kind == "api":
                            continue      # a handle-consuming API hands the value on to its caller (TS-5 checks that it does)
                        eng.violate("TS-3", "release-before-destroy:%s" % f, "the implicit weak of %s is released while its moved-out `%s` has not been destroyed yet" % (show(b), f), ev.b, st)
                if self.entry_kind == "rc_drop" and not is_elem_box(b):
                    for f in ("value", "links"):
                        if not any(fl[0] in ("dropped", "xfer") and fl[1] == b and fl[2] == f for fl in st.flags) and not any(fl[0] in ("mv", "held") and b in fl and f in fl for fl in st.flags):
                            eng.violate("TS-3", "release-before-destroy:%s" % f, "the implicit weak of dead %s is released while its `%s` is still in place (if this was the last weak reference the allocation is freed with live contents)" % (show(b), f), ev.b, st)
                            eng.violate("TS-5", "release-without-destroy:%s" % f, "the implicit weak of dead %s is released but its `%s` was never moved out and destroyed on this path" % (show(b), f), ev.b, st)
            st = add(st, ("decw", b))
        return st

    def on_counter_test(self, eng, st, box, field, op, c, truth, b):
        if field == "weak":
            from interp import classes_for
            if classes_for(op, c, truth) == frozenset("Z"):      # `== 0`, `< 1`, `!(> 0)`, `0 == ..` ...
                return add(st, ("wz", box))
            if "Z" not in classes_for(op, c, truth):
                return add(st, ("wnz", box))      # other weak references remain: the last of them frees the allocation
        return None

    def on_free(self, eng, ev, st):
        b = ev.ptr
        self.sites["free"].add(ev.b)
        eng.obl("TS-4", "free", ev.b)
        if ("freed", b) in st.flags:
            eng.violate("TS-4", "double-free", "%s is freed twice on one path" % show(b), ev.b, st)
        if is_box_ptr(b, eng):
            lay = ev.get("layout")
            if lay is not None and not layout_of_box(lay, b):
                eng.violate("TS-4", "free-with-foreign-layout", "%s is deallocated with a layout (%s) that is not the layout of its RcBox allocation" % (show(b), show(lay)[:100]), ev.b, st)
            if ("wz", b) not in st.flags:
                eng.violate("TS-4", "free-without-weak-zero", "%s is freed on a path that has not observed its weak count at zero after the last change" % show(b), ev.b, st)
            elif ("decw", b) not in st.flags:
                eng.violate("TS-4", "free-without-release", "%s is freed on a path that did not release a weak reference to it" % show(b), ev.b, st)
        return add(st, ("freed", b))

    def on_tblwrite(self, eng, ev, st):
        if any(fl[0] == "unwinding" for fl in st.flags) and ev.get("box") is not None:
            eng.violate("UNW-1", "table-write-in-cleanup", "an unwinding continuation writes the link table of %s" % show(ev.box), ev.b, st)
        return None

    def on_return(self, eng, ev, st):
        eng.obl("TS-5", "return", ev.b)
        self._slot_check(eng, ev, st)
        for fl in st.flags:
            if fl[0] == "mv":
                if not (sub(ev.value, fl[3]) or ev.value == fl[3]):
                    eng.violate("TS-5", "never-destroyed:%s" % fl[2], "`%s` moved out of %s is neither destroyed nor returned on this path (leak)" % (fl[2], show(fl[1])), ev.b, st)
            elif fl[0] == "held":
                eng.violate("TS-5", "container-never-dropped:%s" % fl[3], "`%s` moved out of %s is parked in a container that is never dropped on this path" % (fl[3], show(fl[2])), ev.b, st)
            elif fl[0] == "must_dec":
                eng.violate("TS-1", "extract-without-lowering", "the value of %s is moved out under strong == 1 but the count is not lowered on this path" % show(fl[1]), ev.b, st)
        return None


def layout_of_box(lay, box):
    """Layout::for_value_raw(box) / Layout::for_value(&*box) / Layout::new::<RcBox<_>>() (the latter cannot be
    told apart from other `Layout::new` calls at expression level and is accepted)."""
    if lay[0] == "call":
        d = lay[2]
        if d in ("core::alloc::Layout::for_value_raw", "core::alloc::Layout::for_value") and lay[3]:
            return lay[3][0] == box
        if d == "core::alloc::Layout::new":
            return True
    return False


def is_box_ptr(e, eng):
    """Free events on RcBox allocations (as opposed to e.g. a Box<T> being converted)."""
    if mentions(e, lambda x: x[0] == "call" and x[2].startswith("alloc::boxed::Box::<T, A>::into_raw")):
        return False
    return True


class Borrows:
    """BRW-1..3: no user code while a table guard is live; overlapping borrows are on
    provably different boxes; guards are not leaked."""
    id = "BRW"

    def __init__(self):
        self.guard_sites = set()

    def on_borrow(self, eng, ev, st):
        self.guard_sites.add(ev.b)
        eng.obl("BRW-2", "borrow", ev.b)
        eng.obl("BRW-3", "guard", ev.b)
        for (g, gbox, gmut) in st.guards:
            if not (ev.mut or gmut):
                continue
            if ev.box is not None and gbox is not None and st.distinct(ev.box, gbox):
                continue
            eng.violate("BRW-2", "nested-borrow", "a link table is borrowed (%s) while a %s guard on a table that may be the same one (%s vs %s) is live" % (
                "mut" if ev.mut else "shared", "mut" if gmut else "shared", show(ev.box) if ev.box else "?", show(gbox) if gbox else "?"), ev.b, st)
        return None

    def _user(self, eng, ev, st):
        eng.obl("BRW-1", "user-code-site", ev.b)
        for (g, gbox, gmut) in st.guards:
            eng.violate("BRW-1", "user-code-under-guard", "user code (%s) can run while a %s guard on the link table of %s is live" % (
                ev.get("ty") or ev.get("method") or ev.kind, "mut" if gmut else "shared", show(gbox) if gbox else "?"), ev.b, st)
        return None

    on_user = _user
    on_handle_drop = _user
    on_indirect = _user

    def on_forget(self, eng, ev, st):
        for (g, gbox, gmut) in st.guards:
            if ev.value == g or sub(ev.value, g):
                eng.violate("BRW-3", "guard-forgotten", "a guard on the link table of %s is forgotten (the table stays borrowed forever)" % (show(gbox) if gbox else "?"), ev.b, st)
        return None

    def on_return(self, eng, ev, st):
        for (g, gbox, gmut) in st.guards:
            eng.violate("BRW-3", "guard-escapes", "a guard on the link table of %s is still live when the function returns" % (show(gbox) if gbox else "?"), ev.b, st)
        return None


class GuardDrop:
    """GUARD-1: the Drop impl of a type of this crate (a guard) that releases or frees the allocation one of its fields
    points to must first have emptied every field of the guard whose own drop glue can run user code: the glue of the
    fields runs *after* `Drop::drop`, i.e. after the release -- on the normal path the field may always be empty, but
    while unwinding out of a destructor it need not be."""
    id = "GUARD"

    EMPTIERS = ("core::option::Option::<T>::take", "core::mem::take", "core::mem::replace", "core::mem::ManuallyDrop::<T>::take",
                "core::mem::ManuallyDrop::<T>::drop", "core::ptr::read", "core::ptr::drop_in_place", "alloc::vec::Vec::<T, A>::clear",
                "alloc::vec::Vec::<T, A>::drain", "core::mem::swap")

    def __init__(self, adt, fields):
        self.adt = adt
        self.fields = fields          # names of fields whose drop glue can run user code
        self.short = adt.rsplit("::", 1)[-1]

    def _field_of_self(self, e):
        """name of the field of *self that expression e is (a reference to / a place inside)"""
        x = e
        for _ in range(6):
            if x[0] in ("ref", "deref"):
                x = x[1]
                continue
            if x[0] == "field" and x[1][0] in ("deref", "param") and mentions(x[1], lambda y: y == ("param", 1)) and (len(x) < 4 or x[3] in ("", self.adt)):
                return x[2]
            if x[0] in ("field", "variant"):
                x = x[1]
                continue
            break
        return None

    def on_event(self, eng, ev, st):
        if ev.kind in ("pure", "extcall", "moveout", "vec") and ev.get("callee") in self.EMPTIERS:
            args = ev.get("args") or ()
            for a in args[:2]:
                f = self._field_of_self(a)
                if f is not None:
                    return add(st, ("emptied", f))
        return None

    def _release(self, eng, ev, st, box, what):
        if box is None or not mentions(box, lambda y: y == ("param", 1)):
            return None
        eng.obl("GUARD-1", "release-in-guard-drop", ev.b)
        for f in self.fields:
            if ("emptied", f) not in st.flags:
                eng.violate("GUARD-1", "release-before-own-fields:%s.%s" % (self.short, f),
                            "`Drop for %s` %s the allocation its pointer field names while its field `%s` may still hold values whose destructors run afterwards (the drop glue of the fields runs after `Drop::drop`): "
                            "while unwinding out of a destructor, user values are destroyed after their allocations were released" % (self.short, what, f), ev.b, st)
        return None

    def on_set(self, eng, ev, st):
        if ev.field == "weak" and ev.cls == "dec":
            return self._release(eng, ev, st, ev.box, "releases the implicit weak reference of")
        return None

    def on_free(self, eng, ev, st):
        return self._release(eng, ev, st, ev.ptr, "frees")
