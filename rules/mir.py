"""Fact loading, pretty-printing and control-flow-graph utilities.

All analyses work on the JSON fact document written by the factgen driver
(one per build configuration).  Nothing here looks at source text.
"""
import json
from collections import defaultdict


class Facts:
    # the vocabulary of the rules names these types by path; a type that was moved to another module (`link::table::Links`,
    # `rc::weak::Weak`) is the same type: its path is normalised when the name is unique in the crate
    HOME = {"Rc": "rc", "Weak": "rc", "RcBox": "rc", "RcInnerPtr": "rc", "Link": "link", "Links": "link", "Kind": "link"}

    def __init__(self, path, config="dev"):
        with open(path) as fh:
            text = fh.read()
        doc = json.loads(text)
        crate = doc["crate"]
        moved = []
        for name, home in self.HOME.items():
            hits = [a["path"] for a in doc["adts"] if a["path"].rsplit("::", 1)[-1] == name]
            want = "%s::%s::%s" % (crate, home, name)
            if len(hits) == 1 and hits[0] != want and not any(a["path"] == want for a in doc["adts"]):
                moved.append((hits[0], want))
        if moved:
            for old, new in sorted(moved, key=lambda m: -len(m[0])):
                rel_old, rel_new = old[len(crate) + 2:], new[len(crate) + 2:]
                text = text.replace(old, new).replace(rel_old + "<", rel_new + "<").replace(rel_old + "::", rel_new + "::").replace(rel_old + "\"", rel_new + "\"").replace(rel_old + ">", rel_new + ">")
            doc = json.loads(text)
        self.doc = doc
        self.moved_types = moved
        self.config = config
        self.crate = self.doc["crate"]
        self.fns = {}
        for f in self.doc["fns"]:
            fn = Fn(f, self)
            self.fns[fn.path] = fn
        self.consts = {c["path"]: c for c in self.doc.get("consts", [])}
        self.adts = {a["path"]: a for a in self.doc["adts"]}
        # enums of the crate: variant index -> discriminant value (what a `discriminant` read of an aggregate yields)
        self.enum_discr = {a["path"]: {v["idx"]: v["discr"] for v in a.get("variants", [])} for a in self.doc["adts"] if a.get("kind") == "Enum" and a.get("variants")}
        self.impls = self.doc["impls"]
        self.statics = self.doc["statics"]

    def fn(self, path):
        return self.fns.get(path)

    def find(self, suffix):
        """Functions whose def path ends with `suffix` (vocabulary lookup)."""
        return [f for p, f in self.fns.items() if p.endswith(suffix)]


def place_str(pl, fn=None):
    s = "_%d" % pl["l"]
    if fn is not None:
        nm = fn.locals[pl["l"]].get("name")
        if nm and not nm.startswith("~"):
            s = "%s(_%d)" % (nm, pl["l"])
    for e in pl["p"]:
        if e == "*":
            s = "(*%s)" % s
        elif "f" in e:
            s = "%s.%s" % (s, e["n"])
        elif "dc" in e:
            s = "(%s as %s)" % (s, e["dc"])
        elif "idx" in e:
            s = "%s[_%d]" % (s, e["idx"])
        else:
            s = "%s{%s}" % (s, e.get("x"))
    return s


def op_str(op, fn=None):
    k = op["k"]
    if k in ("copy", "move"):
        return ("move " if k == "move" else "") + place_str(op["pl"], fn)
    if k == "const":
        if "fn" in op:
            return "fn:" + op["fn"]["full"]
        if "int" in op:
            return "const %s" % op["int"]
        return "const{%s}" % op.get("desc")
    return "?" + op.get("desc", "")


def rv_str(rv, fn=None):
    k = rv["k"]
    if k == "use":
        return op_str(rv["op"], fn)
    if k == "ref":
        return ("&mut " if rv["mut"] else "&") + place_str(rv["pl"], fn)
    if k == "addr":
        return ("&raw mut " if rv["mut"] else "&raw const ") + place_str(rv["pl"], fn)
    if k == "cast":
        return "%s as %s (%s)" % (op_str(rv["op"], fn), rv["ty"]["s"], rv["ck"])
    if k == "bin":
        return "%s(%s, %s)" % (rv["op"], op_str(rv["a"], fn), op_str(rv["b"], fn))
    if k == "un":
        return "%s(%s)" % (rv["op"], op_str(rv["a"], fn))
    if k == "discr":
        return "discriminant(%s)" % place_str(rv["pl"], fn)
    if k == "copyderef":
        return "deref_copy %s" % place_str(rv["pl"], fn)
    if k == "agg":
        return "%s %s::%s(%s)" % (rv["ak"], rv["name"], rv["variant"], ", ".join(op_str(o, fn) for o in rv["ops"]))
    if k == "repeat":
        return "[%s; n]" % op_str(rv["op"], fn)
    return "other{%s}" % rv.get("desc")


class Fn:
    def __init__(self, f, facts):
        self.f = f
        self.facts = facts
        self.path = f["path"]
        self.kind = f["kind"]
        self.locals = f["locals"]
        self.blocks = f["blocks"]
        self.argc = f["argc"]
        self.file = f.get("file")
        self.line = f.get("line")
        self.name = f.get("name")
        self._cfg = {}

    # ---------------------------------------------------------------- CFG
    def succs(self, b, unwind=True):
        """Successor list: [(kind, target)], kind in normal/unwind/switch:<v>/otherwise."""
        t = self.blocks[b]["term"]
        k = t["k"]
        out = []
        if k == "goto":
            out.append(("goto", t["target"]))
        elif k == "switch":
            for v, tb in t["targets"]:
                out.append(("sw:" + v, tb))
            out.append(("sw:otherwise", t["otherwise"]))
        elif k in ("call", "drop", "assert"):
            if t.get("target") is not None:
                out.append(("normal", t["target"]))
            if unwind and isinstance(t.get("unwind"), int):
                out.append(("unwind", t["unwind"]))
        return out

    def succ_blocks(self, b, unwind=True):
        return [tb for _, tb in self.succs(b, unwind)]

    def preds(self, unwind=True):
        key = ("preds", unwind)
        if key not in self._cfg:
            p = defaultdict(list)
            for b in range(len(self.blocks)):
                for kind, tb in self.succs(b, unwind):
                    p[tb].append((kind, b))
            self._cfg[key] = p
        return self._cfg[key]

    def reachable(self, start=0, unwind=True, avoid_edges=()):
        seen = set()
        st = [start]
        avoid = set(avoid_edges)
        while st:
            b = st.pop()
            if b in seen:
                continue
            seen.add(b)
            for kind, tb in self.succs(b, unwind):
                if (b, tb) in avoid:
                    continue
                st.append(tb)
        return seen

    def dominators(self, unwind=True):
        """Immediate-dominator-free set formulation (bodies are small)."""
        key = ("dom", unwind)
        if key in self._cfg:
            return self._cfg[key]
        n = len(self.blocks)
        reach = self.reachable(0, unwind)
        preds = self.preds(unwind)
        dom = {b: set(reach) for b in reach}
        dom[0] = {0}
        changed = True
        order = self.rpo(unwind)
        while changed:
            changed = False
            for b in order:
                if b == 0:
                    continue
                ps = [p for _, p in preds[b] if p in reach]
                if not ps:
                    continue
                new = set.intersection(*[dom[p] for p in ps]) | {b}
                if new != dom[b]:
                    dom[b] = new
                    changed = True
        self._cfg[key] = dom
        return dom

    def rpo(self, unwind=True):
        key = ("rpo", unwind)
        if key in self._cfg:
            return self._cfg[key]
        seen = set()
        post = []
        # iterative DFS
        stack = [(0, iter(self.succ_blocks(0, unwind)))]
        seen.add(0)
        while stack:
            b, it = stack[-1]
            adv = False
            for s in it:
                if s not in seen:
                    seen.add(s)
                    stack.append((s, iter(self.succ_blocks(s, unwind))))
                    adv = True
                    break
            if not adv:
                post.append(b)
                stack.pop()
        r = list(reversed(post))
        self._cfg[key] = r
        return r

    def dominates(self, a, b, unwind=True):
        d = self.dominators(unwind)
        return b in d and a in d[b]

    def edge_dominates(self, edge, b, unwind=True):
        """True iff every path from entry to block b uses CFG edge `edge`=(src,dst)."""
        if b not in self.reachable(0, unwind):
            return True
        return b not in self.reachable(0, unwind, avoid_edges=[edge])

    def back_edges(self, unwind=True):
        dom = self.dominators(unwind)
        out = []
        for b in dom:
            for _, s in self.succs(b, unwind):
                if s in dom[b]:
                    out.append((b, s))
        return out

    def loops(self, unwind=False):
        """Natural loops: {header: set(blocks)} over the chosen edge set."""
        key = ("loops", unwind)
        if key in self._cfg:
            return self._cfg[key]
        preds = self.preds(unwind)
        loops = defaultdict(set)
        for (src, hdr) in self.back_edges(unwind):
            body = {hdr, src}
            st = [src]
            while st:
                x = st.pop()
                if x == hdr:
                    continue
                for _, p in preds[x]:
                    if p not in body:
                        body.add(p)
                        st.append(p)
            loops[hdr] |= body
        self._cfg[key] = dict(loops)
        return self._cfg[key]

    # ------------------------------------------------------------ printing
    def loc(self, b=None, stmt=None):
        if b is None:
            return "%s:%s" % (self.file, self.line)
        blk = self.blocks[b]
        x = blk["term"] if stmt is None else blk["stmts"][stmt]
        return "%s:%s" % (x.get("file"), x.get("line"))

    def term_str(self, b):
        t = self.blocks[b]["term"]
        k = t["k"]
        if k == "call":
            cal = t["callee"]["full"] if t["callee"] else "indirect " + op_str(t["fnop"], self)
            uw = t["unwind"]
            return "%s = %s(%s) -> [ret: %s, unwind: %s]" % (
                place_str(t["dst"], self), cal, ", ".join(op_str(a, self) for a in t["args"]), t["target"], uw)
        if k == "drop":
            return "drop(%s: %s) -> [ret: %s, unwind: %s]" % (place_str(t["pl"], self), t["ty"]["s"], t["target"], t["unwind"])
        if k == "switch":
            return "switch(%s) -> %s, otherwise %s" % (op_str(t["discr"], self), t["targets"], t["otherwise"])
        if k == "assert":
            return "assert(%s == %s, %s) -> [ok: %s, unwind: %s]" % (op_str(t["cond"], self), t["expected"], t["msg"], t["target"], t["unwind"])
        if k == "goto":
            return "goto %s" % t["target"]
        return k

    def dump(self):
        out = ["fn %s  [%s]" % (self.path, self.loc())]
        for i, l in enumerate(self.locals):
            out.append("  let _%d: %s%s" % (i, l["ty"]["s"], ("  // " + l["name"]) if l.get("name") else ""))
        for b, blk in enumerate(self.blocks):
            out.append("  bb%d%s:" % (b, " (cleanup)" if blk["cleanup"] else ""))
            for s in blk["stmts"]:
                if s["k"] == "assign":
                    out.append("    %s = %s   // L%s%s" % (place_str(s["dst"], self), rv_str(s["rv"], self), s["line"], " [%s]" % s["macro"] if s.get("macro") else ""))
                else:
                    out.append("    %s %s" % (s["k"], s.get("desc", "")))
            t = blk["term"]
            out.append("    %s   // L%s%s" % (self.term_str(b), t["line"], " [%s]" % t["macro"] if t.get("macro") else ""))
        return "\n".join(out)


if __name__ == "__main__":
    import sys
    facts = Facts(sys.argv[1])
    for pat in sys.argv[2:]:
        for f in facts.find(pat):
            print(f.dump())
            print()
