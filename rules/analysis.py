"""Runs every rule on every entry point of one fact set and returns violations + coverage."""
import time
from harness import Program, Inconclusive, RC, WEAK
from rules_ts import Teardown, Borrows, handle_boxes
from rules_gate import Gate, Counters, Kill, short
from rules_trace import Verdict, Trace, ClosureCache, Adaptors, GroupPhases, IterLocal, MapEmptiness
from rules_api import TableOps, AdoptSchema, Purge, Getters, ApiSpec, Forward, FWD_TRAITS, REF_TRAITS
import rules_struct


class Result:
    def __init__(self, config):
        self.config = config
        self.violations = []     # dicts: rule, key, msg, where, entry, path, config
        self.obligations = set() # (rule, what, fn, bb)
        self.entries = []
        self.states = 0
        self.events = 0
        self.blocks = 0
        self.functions = 0
        self.call_sites = 0
        self.wall = 0.0
        self.inconclusive = []


def analyse(program):
    P = program
    t0 = time.time()
    res = Result(P.config)
    drop = P.rc_drop()
    wdrop = P.weak_drop()
    clone = P.rc_clone()
    adopt = P.adopt()
    unadopt = P.unadopt()
    closures = ClosureCache(P)
    sv = rules_struct.V()
    unfollowed = []
    budget_exhausted = []
    for fn in P.entries():
        kind = "api"
        if fn is drop:
            kind = "rc_drop"
        elif fn is wdrop:
            kind = "weak_drop"
        elif fn is clone:
            kind = "rc_clone"
        g = P.inlined(fn)
        hb = handle_boxes(g)
        self_box = hb[1][1] if 1 in hb else None
        name = short(fn.path)
        rules = [MapEmptiness(), Teardown(kind, self_box), Borrows(), Gate(kind, self_box), Counters(kind, self_box, fn),
                 Kill(kind, self_box, fn.path), Verdict(closures, fn), Trace(closures, P), Adaptors(closures), TableOps(closures), GroupPhases(), IterLocal()]
        if fn is adopt:
            rules.append(AdoptSchema("adopt", hb))
        elif fn is unadopt:
            rules.append(AdoptSchema("unadopt", hb))
        if kind == "rc_drop":
            rules.append(Purge(self_box, closures))
        elif fn is not adopt and fn is not unadopt:
            rules.append(Purge(self_box, closures, kind, name))
        if fn is not adopt and fn is not unadopt and kind == "api" and 1 in hb and 2 in hb and hb[1][0] == "Rc" and hb[2][0] == "Rc" \
                and fn.locals[1]["ty"].get("peel", 0) == 1 and fn.locals[2]["ty"].get("peel", 0) == 1:
            from rules_api import LoopbackSelect
            rules.append(LoopbackSelect(name, hb))
        if name in ("Weak::strong_count", "Weak::weak_count", "Rc::strong_count", "Rc::weak_count"):
            rules.append(Getters(name, self_box))
        if not fn.f.get("impl_trait") and (name.startswith("Rc::") or name.startswith("Weak::")):
            rules.append(ApiSpec(name, hb, fn))
        isf = fn.f.get("impl_self") or {}
        if (fn.f.get("impl_trait") in FWD_TRAITS or fn.f.get("impl_trait") in REF_TRAITS) and isf.get("adt") == RC:
            rules.append(Forward(fn, hb))
        try:
            eng = P.run(fn, rules)
        except Inconclusive as exc:
            # this entry point cannot be finished within the budget: no verdict for it, but what the other entry points and
            # the structural rules (call graph, visibility, address ordering) find is still reported
            budget_exhausted.append(str(exc))
            continue
        for u in eng.unfollowed:
            if u not in unfollowed:
                unfollowed.append(u)
        res.entries.append({"entry": name, "path": fn.path, "blocks": len(g.blocks), "states": eng.stats["states"], "events": len(eng.event_index)})
        res.states += eng.stats["states"]
        res.events += len(eng.event_index)
        res.blocks += len(g.blocks)
        for v in eng.violations.values():
            v = dict(v)
            v["config"] = P.config
            v["entry_short"] = name
            # counter accesses that ran out of sight (raw pointer into a counter cell): nothing may be concluded from the
            # *absence* of a counter update on this entry point
            if eng.unfollowed and ("without" in v["key"] or "no-increment" in v["key"] or "no-decrement" in v["key"] or "not-followed" in v["key"]):
                continue
            res.violations.append(v)
        for (rule, what, b) in eng.obligations:
            w = eng.where(b)
            # an anchor is a place in the inlined program: the whole chain of call sites leading to it (so that routing
            # several operations through one new helper does not merge their anchors)
            via = " > ".join(x.replace("cactusref::", "") for x in w["via"])
            res.obligations.add((rule, what, w["fn"], "%s%s" % (w["bb"], (" via " + via) if via else ""), "%s:%s" % (w["file"], w["line"])))
        # structural rules that use the interpreter's view of iterators
        rules_struct.iter1(eng, sv)
        rules_struct.iter3(eng, sv)
        rules_struct.iter3_accumulators(eng, sv)
        rules_struct.search_closures(eng, closures, sv)
        if kind == "rc_drop":
            rules_struct.iter5(eng, sv)
    # Drop impls of the crate's own guard types, on their own (they may be run by library drop glue)
    from rules_ts import GuardDrop
    for f in list(P.facts.fns.values()):
        if f.f.get("impl_trait") == "core::ops::Drop" and f.name == "drop":
            adt = (f.f.get("impl_self") or {}).get("adt")
            if not adt or adt in (RC, WEAK) or adt not in P.facts.adts:
                continue
            flds = [x["name"] for x in P.facts.adts[adt]["fields"] if (x.get("tyj") or {}).get("dp", 0) & 1 or any(h in ((x.get("tyj") or {}).get("ldt") or []) for h in (RC, WEAK))]
            eng = P.run(f, [GuardDrop(adt, flds)])
            for v in eng.violations.values():
                v = dict(v)
                v["config"] = P.config
                v["entry_short"] = short(f.path)
                res.violations.append(v)
            for (rule, what, b) in eng.obligations:
                w = eng.where(b)
                res.obligations.add((rule, what, w["fn"], str(w["bb"]), "%s:%s" % (w["file"], w["line"])))
    rules_struct.iter4(P, sv)
    rules_struct.cg1(P, sv)
    rules_struct.eff4(P, sv)
    rules_struct.key1(P, sv)
    for v in sv.violations.values():
        v = dict(v)
        v["config"] = P.config
        v["entry_short"] = short(v["entry"]) if v.get("entry") else None
        res.violations.append(v)
    for (rule, what, where) in sv.obligations:
        if isinstance(where, tuple) and where and where[0] == "raw":
            res.obligations.add((rule, what, where[1], where[2], "L%s" % where[3]))
        elif isinstance(where, tuple) and len(where) == 2 and isinstance(where[1], int) and where[0] in P.facts.fns:
            g = P.inlined(P.facts.fns[where[0]])
            p = g.prov[where[1]] if where[1] < len(g.prov) else (where[0], where[1], ())
            t = g.blocks[where[1]]["term"] if where[1] < len(g.blocks) else {}
            res.obligations.add((rule, what, p[0], p[1], "%s:%s" % (t.get("file"), t.get("line"))))
        else:
            res.obligations.add((rule, what, str(where[0]), str(where[1]), ""))
    res.inconclusive = ["%s, so no verdict can be given" % u for u in unfollowed] + budget_exhausted
    seen_ = set()
    for e, b, what in P.inliner.lazy_unexpanded:
        if what not in seen_:
            seen_.add(what)
            res.inconclusive.append("%s (in %s): this part of the crate is outside what the analysis can follow, so no verdict can be given" % (what, e))
    res.functions = len(P.facts.fns)
    res.call_sites = sum(1 for f in P.facts.fns.values() for b in f.blocks if b["term"]["k"] == "call")
    res.unresolved = sorted(set(P.inliner.unresolved))
    res.wall = time.time() - t0
    return res


if __name__ == "__main__":
    import sys
    from collections import Counter
    P = Program(sys.argv[1] if len(sys.argv) > 1 else "/tmp/w/facts.json")
    res = analyse(P)
    for v in res.violations:
        print("VIOL", v["rule"], v["key"], "|", v.get("entry_short"), "|", v["msg"][:300], "|", v["where"]["fn"].split("::")[-1], v["where"].get("line"))
    c = Counter(o[0] for o in res.obligations)
    print("obligations", dict(sorted(c.items())))
    for r_ in res.inconclusive:
        print("INCONCLUSIVE", r_)
    print("entries", len(res.entries), "states", res.states, "%.1fs" % res.wall, "unresolved", res.unresolved)
