"""Runs every rule on every entry point of one fact set and returns violations + coverage."""
import time
from harness import Program, Inconclusive, RC, WEAK
from rules_ts import Teardown, Borrows, handle_boxes
from rules_gate import Gate, Counters, Kill, short
from rules_trace import Verdict, Trace, ClosureCache, Adaptors
from rules_api import TableOps, AdoptSchema, Purge, Getters, ApiSpec, Forward, FWD_TRAITS, REF_TRAITS


def analyse(program):
    P = program
    drop = P.rc_drop()
    wdrop = P.weak_drop()
    clone = P.rc_clone()
    closures = ClosureCache(P)
    results = []
    for fn in P.entries():
        kind = "api"
        if fn is drop:
            kind = "rc_drop"
        elif fn is wdrop:
            kind = "weak_drop"
        elif fn is clone:
            kind = "rc_clone"
        hb = handle_boxes(P.inlined(fn))
        self_box = hb[1][1] if 1 in hb else None
        rules = [Teardown(kind, self_box), Borrows(), Gate(kind, self_box), Counters(kind, self_box, fn),
                 Kill(kind, self_box, fn.path), Verdict(closures, fn), Trace(closures, P), Adaptors(closures)]
        name = short(fn.path)
        boxes = hb
        rules.append(TableOps())
        if fn is P.adopt():
            rules.append(AdoptSchema("adopt", boxes))
        elif fn is P.unadopt():
            rules.append(AdoptSchema("unadopt", boxes))
        if kind == "rc_drop":
            rules.append(Purge(self_box))
        if name in ("Weak::strong_count", "Weak::weak_count", "Rc::strong_count", "Rc::weak_count"):
            rules.append(Getters(name, self_box))
        if not fn.f.get("impl_trait") and (name.startswith("Rc::") or name.startswith("Weak::")):
            rules.append(ApiSpec(name, boxes, fn))
        isf = fn.f.get("impl_self") or {}
        if fn.f.get("impl_trait") in FWD_TRAITS or fn.f.get("impl_trait") in REF_TRAITS:
            if isf.get("adt") == RC:
                rules.append(Forward(fn, boxes))
        eng = P.run(fn, rules)
        results.append((fn, kind, eng, rules))
    return results


if __name__ == "__main__":
    import sys
    P = Program(sys.argv[1] if len(sys.argv) > 1 else "/tmp/w/facts.json")
    t0 = time.time()
    res = analyse(P)
    tot = 0
    for fn, kind, eng, rules in res:
        tot += eng.stats["states"]
        for v in eng.violations.values():
            print("VIOL", v["rule"], v["key"], "|", short(fn.path), "|", v["msg"][:300], "|", v["where"]["fn"].split("::")[-1], v["where"]["line"])
    print("entries", len(res), "states", tot, "%.1fs" % (time.time() - t0))
