#!/bin/bash
# usage: tools_seedeval.sh <id>   (developer tool)  confirms a sub-agent's seeded change in its scratch worktree
# and runs every registered check against it (patch applied to /repo and undone straight afterwards).
id="$1"; wt=/tmp/wt-$id; out=$wt/_out
set -u
cd $wt || exit 2
name=seeded_$id
git checkout -q -- src 2>/dev/null; git stash list >/dev/null
rm -f tests/seeded_*.rs
cp $out/demo_test.rs tests/$name.rs
miri=$(python3 -c "import json;print(json.load(open('$out/meta.json')).get('miri_only',False))")
# a demonstration that needs another build configuration (--release / --no-default-features)
flags=$(python3 -c "import json;print(json.load(open('$out/meta.json')).get('demo_flags','') or '')")
run_demo() {
  if [ "$miri" = "True" ]; then
    MIRIFLAGS="-Zmiri-disable-isolation -Zmiri-ignore-leaks" timeout 1200 cargo +nightly miri test --offline --test $name >/tmp/seed-$id-demo.log 2>&1
  else
    timeout 900 cargo test --offline $flags --test $name -- --test-threads=1 >/tmp/seed-$id-demo.log 2>&1
  fi
  echo $?
}
echo "[1] demo on unmodified code: rc=$(run_demo) (expect 0)"
git apply $out/patch.diff || { echo "patch does not apply"; exit 2; }
mv tests/$name.rs /tmp/$name.rs.keep
cargo test --workspace --no-fail-fast --offline --lib --tests >/tmp/seed-$id-suite.log 2>&1
echo "[2] suite with change: rc=$? passed=$(grep -E '^test result' /tmp/seed-$id-suite.log | awk '{s+=$4} END {print s}') (expect rc 0, 39)"
mv /tmp/$name.rs.keep tests/$name.rs
echo "[3] demo with change: rc=$(run_demo) (expect non-zero)"; tail -5 /tmp/seed-$id-demo.log | cut -c1-200
git checkout -q -- src; rm -rf target
# checks
cd /verif
git -C /repo apply $out/patch.diff || { echo "patch does not apply to /repo"; exit 2; }
det=""
for p in C01 C02 C03 C04 C05 C06 C07 C08 C09 C10 C11 C12 C14 C15 C16; do
  o=$(./check $p --no-evidence 2>&1); rc=$?
  if [ $rc -ne 0 ]; then det="$det $p(rc=$rc)"; echo "$o" | grep -v "^KNOWN\|^VIOLATION" | head -3 | cut -c1-330; fi
done
git -C /repo checkout -- .
echo "[4] checks raising: $det"
