#!/usr/bin/env python3
"""Developer tool: tools_benigneval.py <wt-id> <PREFIX> [--save]
Runs the analysis on each behaviour-preserving refactoring b*.diff a sub-agent left in /tmp/wt-<id>/_out (scratch copies of /repo,
removed at once), prints violations / floors / inconclusive answers, and with --save stores them as mutants/<PREFIX><n>.patch."""
import sys, os, json, glob
sys.path.insert(0, "/verif/rules")
import selftest, props
from concurrent.futures import ProcessPoolExecutor
wid, prefix = sys.argv[1], sys.argv[2]
save = "--save" in sys.argv
out = "/tmp/wt-%s/_out" % wid
meta = json.load(open(out + "/meta.json")) if os.path.exists(out + "/meta.json") else {"items": []}
summ = {it.get("file"): it for it in meta.get("items", [])}
known = set(k["key"] for k in json.load(open("/verif/known_findings.json"))["findings"] if k["status"] == "known")
floors = json.load(open("/verif/floors.json"))
diffs = sorted(glob.glob(out + "/b*.diff"))
items = [{"id": os.path.basename(d), "patch": d, "kind": "benign", "want_counts": True} for d in diffs]
with ProcessPoolExecutor(8) as ex:
    res = list(ex.map(selftest.run_one, [(it, "/repo") for it in items]))
cat = json.load(open("/verif/mutants/catalogue.json"))
for i, (it, r) in enumerate(zip(items, res), 1):
    iid, status, keys = r[0], r[1], [k for k in r[2] if k not in known]
    counts = r[3] if len(r) > 3 else None
    # floors describe /repo HEAD; a patch evaluated against an earlier commit is only compared with that commit's own report
    low = sorted(ru for ru in props.RULE_TEXT if status == "analysed" and counts is not None and selftest.below_floor(counts, floors, ru))
    verdict = "SILENT" if (status == "analysed" or status.startswith("analysed@")) and not keys and not low else "ATTENTION"
    print("%s %s: %s %s %s %s" % (wid, iid, verdict, status if status != "analysed" else "", keys[:4], ("below floor: %s" % low) if low else ""))
    print("     " + (summ.get(iid, {}).get("summary", "")[:300]))
    if status == "inconclusive":
        print("     " + str(r[2])[:300])
    if save:
        name = "%s%s%d" % (prefix, wid[-1], i)
        body = open(it["patch"]).read()
        s = summ.get(iid, {})
        open("/verif/mutants/%s.patch" % name, "w").write("# %s (benign variant from an independent sub-agent, must stay silent): %s\n%s" % (name, s.get("summary", "").replace("\n", " ")[:600], body))
        cat[name] = {"kind": "benign", "target_rules": [], "properties": [], "edit": "%s: %s" % (name, s.get("summary", "").replace("\n", " ")[:300]),
                     "origin": "independent sub-agent (area: %s); %s" % (meta.get("area", "?")[:80], s.get("tests", "")[:160])}
if save:
    json.dump(cat, open("/verif/mutants/catalogue.json", "w"), indent=1)
