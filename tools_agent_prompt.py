import sys
pid=sys.argv[1]
prop=open('/tmp/prop-%s.txt'%pid).read()
print(f"""You are helping to evaluate a verification tool by seeding a realistic defect into a Rust library.

The library is artichoke/cactusref (a nightly-only Rust crate providing `Rc`/`Weak` smart pointers that detect and deallocate orphaned reference cycles via "adoption" bookkeeping and a reachability trace on drop). You have your own scratch git worktree of it at /tmp/wt-{pid} (work ONLY there; do not touch /repo, do not read or write anything under /verif). The sandbox is offline: use `cargo ... --offline`. The crate's toolchain is nightly (rust-toolchain file present). Miri is available: `MIRIFLAGS="-Zmiri-disable-isolation -Zmiri-ignore-leaks" cargo +nightly miri test --offline --test <name>`.

Here is a semantic property that the library is supposed to satisfy:

{prop}

YOUR TASK: produce ONE small source change to the library (files under /tmp/wt-{pid}/src only) that BREAKS this property, such that
  1. the crate still compiles (`cargo build --offline`) and
  2. the existing test suite still passes unchanged: `cargo test --workspace --no-fail-fast --offline --lib --tests` (39 tests) — do not edit existing tests, and
  3. the breakage needs something SPECIFIC to manifest — e.g. a multi-step sequence of operations, an unusual but legal input/graph shape, a panic/fault at a particular point, a particular table iteration order, or two cooperating code sites that each look fine alone. It must NOT be something ordinary use (or the existing tests) would expose at once. Make it look like a plausible refactoring slip, optimisation, or well-intended "simplification" a maintainer could make — not sabotage with obviously weird code.
  4. you provide a DEMONSTRATION: a new integration test file (e.g. tests/seeded_{pid}.rs) or small program that FAILS (assertion failure, panic, abort, or Miri-detected undefined behaviour) with your change applied and PASSES on the unmodified code. Run it both ways yourself and record the commands and outcomes. If it only fails under Miri, say so and give the Miri command.

Read the source first (src/rc.rs, src/drop.rs, src/cycle.rs, src/adopt.rs, src/link.rs, tests/) to understand the mechanisms. Prefer changes in the core mechanisms relevant to the property. Keep the change minimal (a few lines).

DELIVERABLES, written into /tmp/wt-{pid}/_out/ :
  - patch.diff : `git diff -- src` of your change (only src/ changes; must apply with `git apply` to a clean checkout of the same commit)
  - the demonstration test file (copy of it), named demo_test.rs (it will be placed in tests/ to run)
  - meta.json : {{"property": "{pid.upper()}", "summary": "<what the change is>", "needs": "<what specific circumstances make it manifest>", "demo_cmd": "<exact command to run the demo>", "fails_with_change": "<observed failure>", "passes_without_change": true, "suite_passes_with_change": true, "miri_only": true|false}}

NEVER use `git stash` (the stash is shared by every worktree of the repository and other agents work in parallel); to test on unmodified code use `git diff -- src > /tmp/wt-{pid}/_out/patch.diff && git apply -R ...` and re-apply afterwards. When done, leave the worktree in any state — but make sure _out/ contains the deliverables (copy them before stashing; _out is untracked so prefer NOT stashing: simply leave everything as is). Finally remove the build output: `rm -rf /tmp/wt-{pid}/target`.

In your final answer, summarise the change, what it needs to manifest, and the commands you ran with their results.""")
