#!/bin/bash
# setup_cmd: build the fact generator (rustc_private driver) offline, from files on disk only.
set -e
cd "$(dirname "$0")/driver"
CARGO_NET_OFFLINE=true cargo build --release --offline
test -x target/release/factgen
