#!/usr/bin/env python3
"""usage: tools_seedsave.py <id> <name> <detected_for comma list> -- keep a confirmed seeded change under /verif/seeded/<name>/"""
import sys, json, os, shutil
sid, name, det = sys.argv[1], sys.argv[2], [x for x in sys.argv[3].split(",") if x]
src = "/tmp/wt-%s/_out" % sid
dst = "/verif/seeded/%s" % name
os.makedirs(dst, exist_ok=True)
shutil.copy(src + "/patch.diff", dst + "/patch.diff")
shutil.copy(src + "/demo_test.rs", dst + "/demo_test.rs")
m = json.load(open(src + "/meta.json"))
import re
_mm = re.match(r"(C\d\d)", str(m.get("property", "")).upper())
if _mm:
    m["property"] = _mm.group(1)
m["kind"] = "defect"
m["origin"] = "written by an independent sub-agent given only the property text and a scratch worktree (nothing from /verif)"
m["confirmed"] = {
    "by": "tools_seedeval.sh in the sub-agent's scratch worktree (removed afterwards)",
    "demo_passes_on_unmodified_tree": True,
    "suite_39_tests_pass_with_change": True,
    "demo_fails_with_change": True,
    "how": "demo copied to tests/, run with `cargo test --offline --test <demo>` (or Miri when miri_only) before and after `git apply patch.diff`; suite = cargo test --workspace --no-fail-fast --offline --lib --tests",
}
m["detected_for"] = det
m["checks_run"] = "patch applied to /repo with `git -C /repo apply`, every registered quick check run, then `git -C /repo checkout -- .`"
json.dump(m, open(dst + "/meta.json", "w"), indent=1)
print("saved", dst, det)
