#!/usr/bin/env python3
"""Developer tool: recompute floors.json = per rule and anchor kind (the part of an obligation's label before `:`), 60 % (at least 1)
of the minimum number of distinct obligations over the four configurations on the current /repo tree.  Rules whose expected
count is zero (TS-6) have no required anchor."""
import sys, os, json, subprocess, tempfile, shutil, math
sys.path.insert(0, "/verif/rules")
from harness import Program
from analysis import analyse
import props
ZERO = {"TS-6", "GUARD-1"}
# anchor kinds that exist only for one of several accepted idioms (the verdict as `any` has a search closure, as a loop it has none)
OPTIONAL = {("ITER-1", "search-closure"), ("ITER-1", "pure-search-exit"), ("ITER-1", "worklist-resumed"), ("ITER-1", "exhausted-at-return")}
td = tempfile.mkdtemp(prefix="verif-floors-")
counts = {}
seen = set()
allper = []
try:
    for cfg in ("dev", "nodebug", "nostd", "nostd-nodebug"):
        f = os.path.join(td, cfg + ".json")
        subprocess.run(["/verif/factgen.sh", "/repo", f, cfg], check=True, capture_output=True)
        res = analyse(Program(f, cfg))
        per = {}
        for o in res.obligations:
            per.setdefault((o[0], o[1].split(":")[0]), set()).add(o)
        seen.update(per.keys())
        allper.append(per)
finally:
    shutil.rmtree(td, ignore_errors=True)
floors = {}
for (r, kind) in sorted(seen):
    cs = [len(per.get((r, kind), ())) for per in allper]
    m = min(cs)
    if m == 0 or (r, kind) in OPTIONAL:
        continue   # an anchor that exists only in some configurations (debug_cycle) is not required
    n = m if m <= 1 else max(1, math.floor(m * 0.6))
    floors.setdefault(r, {})[kind] = n
    print(r, kind, cs, "->", n)
for r in props.RULE_TEXT:
    if r not in floors and r not in ZERO:
        raise SystemExit("rule %s has no anchor on the current tree" % r)
    floors.setdefault(r, {})
json.dump(floors, open("/verif/floors.json", "w"), indent=1, sort_keys=True)
