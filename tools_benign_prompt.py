import sys
pid, area = sys.argv[1], sys.argv[2]
print(f"""You are helping to evaluate a verification tool for false alarms by producing BEHAVIOUR-PRESERVING refactorings of a Rust library.

The library is artichoke/cactusref (a nightly-only Rust crate providing `Rc`/`Weak` smart pointers that detect and deallocate orphaned reference cycles via "adoption" bookkeeping and a reachability trace on drop). You have your own scratch git worktree of it at /tmp/wt-{pid} (work ONLY there; do not touch /repo, do not read or write anything under /verif). The sandbox is offline: use `cargo ... --offline`. The crate's toolchain is nightly. Miri is available: `MIRIFLAGS="-Zmiri-disable-isolation -Zmiri-ignore-leaks" cargo +nightly miri test --offline --test <name>`.

YOUR TASK: produce FOUR different, independent, realistic refactorings of the code in: {area}
Each refactoring must
  1. preserve the observable behaviour of the library EXACTLY for every input and history (same values destroyed at the same points and in an equally valid order, same counts, same memory released, same panics/aborts, same bookkeeping) — it is the kind of change a maintainer makes for readability, style, or micro-performance: e.g. extracting a helper function or inlining one, rewriting a `for` loop as an iterator chain (or the reverse), replacing `if let` by `match`, early returns vs nested ifs, renaming locals, reordering independent statements, replacing a helper call by the equivalent open-coded expression, using a different but equivalent std/hashbrown API (e.g. `get_mut` + in-place update instead of get/insert, `entry` API variants, `is_empty()` vs `len() == 0`, `matches!`, `Option` combinators), moving a block of code into its own function, merging two functions, using a scope instead of explicit `drop(guard)`, etc. Prefer refactorings that touch the delicate parts (counter updates, link-table updates, the teardown sequences, the trace loop, the orphan test), not just comments or formatting. Make the four as different from each other in style as you can.
  2. compile (`cargo build --offline`), pass the existing suite `cargo test --workspace --no-fail-fast --offline --lib --tests` (39 tests) and the doc tests `cargo test --offline --doc` (54), and — for refactorings touching drop/cycle/adopt code — keep these Miri runs clean: `... cargo +nightly miri test --offline --test leak_doubly_linked_list --test leak_adopt_with_members_in_multiple_cycles --test weak_upgrade_returns_none_when_cycle_is_deallocated --test leak_unadopt` (run them).
  3. be a single self-contained diff against the clean checkout (HEAD) — each refactoring independent of the others (start each from a clean `git checkout -- src`).

Be careful and honest: if you are not sure a rewrite is behaviour-preserving in every case (including panics inside user destructors, self-adoption, parallel adoptions, Weak handles), do not submit it; pick another. Think about edge cases like evaluation order, borrow scopes (RefCell guards), and integer arithmetic.

DELIVERABLES in /tmp/wt-{pid}/_out/ :
  - b1.diff, b2.diff, b3.diff, b4.diff : `git diff -- src` of each refactoring (each applies with `git apply` to a clean checkout of the same commit)
  - meta.json : {{"area": "...", "items": [{{"file": "b1.diff", "summary": "<what was refactored and why it is behaviour-preserving>", "tests": "<what you ran and the result>"}}, ...]}}
NEVER use `git stash` (the stash is shared by every worktree of the repository and other agents work in parallel); use `git diff -- src > file` and `git checkout -- src` instead. Finally restore the tree (`git checkout -- src`) and remove build output: `rm -rf /tmp/wt-{pid}/target`.

In your final answer, list the four refactorings briefly with the test results.""")
