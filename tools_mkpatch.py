#!/usr/bin/env python3
"""Developer tool: tools_mkpatch.py <name> <file> <old-snippet-file> <new-snippet-file> <description>
Builds a patch from a text replacement on a scratch copy of /repo (in /tmp/bb/base), runs the full test suite on it and
writes /tmp/bb/<name>.patch."""
import sys, os, subprocess, shutil, re
name, file, old, new, desc = sys.argv[1], sys.argv[2], open(sys.argv[3]).read(), open(sys.argv[4]).read(), sys.argv[5]
d = '/tmp/bb/' + name
shutil.rmtree(d, ignore_errors=True)
shutil.copytree('/tmp/bb/base', d)
p = d + '/' + file
s = open(p).read()
assert old in s, 'old text not found'
open(p, 'w').write(s.replace(old, new, 1))
r = subprocess.run('cargo test --workspace --no-fail-fast --offline --lib --tests 2>&1 | grep -E "^test result" | awk \'{p+=$4; f+=$6} END {print p" passed "f" failed"}\'; cargo test --offline --doc 2>&1 | grep -E "^test result"', shell=True, cwd=d, capture_output=True, text=True)
print(name, r.stdout.strip().replace("\n", " | "))
diff = subprocess.run(['diff', '-u', 'base/' + file, name + '/' + file], cwd='/tmp/bb', capture_output=True, text=True).stdout
diff = re.sub(r'^--- base/(\S+).*$', r'--- a/\1', diff, flags=re.M)
diff = re.sub(r'^\+\+\+ ' + re.escape(name) + r'/(\S+).*$', r'+++ b/\1', diff, flags=re.M)
open('/tmp/bb/' + name + '.patch', 'w').write('# %s: %s\n# suite: %s\n' % (name, desc, r.stdout.strip().replace("\n", " | ")) + diff)
shutil.rmtree(d, ignore_errors=True)
